"""setup_cmd: parse all specifications; nothing is fetched."""
import glob
import os
import sys

from .core import tlc


def main():
    bad = 0
    mods = sorted(os.path.basename(p)[:-4] for p in glob.glob(os.path.join(tlc.SPEC, "*.tla")) if "_TTrace_" not in p)
    import concurrent.futures as cf
    with cf.ThreadPoolExecutor(max_workers=8) as ex:
        for m, (ok, out) in zip(mods, ex.map(tlc.sany, mods)):
            print("SANY %-24s %s" % (m, "ok" if ok else "FAILED"))
            if not ok:
                print(out[-2000:])
                bad += 1
    if bad:
        sys.exit(1)
    # binding self-test: every trace spec accepts a good trace and reports a corrupted field at its event
    from . import selftest
    selftest.main()


if __name__ == "__main__":
    main()
