"""C05 - parameter lists sent to the device have the standard layout and honest lengths."""
import copy
import random

from ..core import cmds, tlc
from ..core.lib import mod
from ..core.runner import main
from ..core.values import flatten

CONTROL = {"tst": 7, "tmf_only": 1, "dpicz": 1, "d_sense": 1, "gltsd": 1, "rlec": 1, "queue_algorithm_modifier": 15,
           "nuar": 1, "qerr": 3, "vs": 1, "rac": 1, "ua_intlck_ctrl": 3, "swp": 1, "ato": 1, "tas": 1, "atmpe": 1,
           "rwwp": 1, "autoload_mode": 7, "busy_timeout_period": 65535, "extended_self_test_completion_time": 65535}
CTRLEXT = {"tcmos": 1, "scsip": 1, "ialuae": 1, "initial_command_priority": 15, "maximum_sense_data_length": 255}
DISCON = {"buffer_full_ratio": 255, "buffer_empty_ratio": 255, "bus_inactivity_limit": 65535, "disconnect_time_limit": 65535,
          "connect_time_limit": 65535, "maximum_burst_size": 65535, "emdp": 1, "fair_arbitration": 7, "dimm": 1, "dtdc": 7,
          "first_burst_size": 65535}
ELEMENT = {k: 65535 for k in ("first_medium_transport_element_address", "num_medium_transport_elements",
                              "first_storage_element_address", "num_storage_elements", "first_import_element_address",
                              "num_import_elements", "first_data_transfer_element_address", "num_data_transfer_elements")}


def pick(rng, mx):
    return rng.choice([0, mx, 1, rng.randint(0, mx)])


def mode_page(rng):
    k = rng.choice(["control", "ctrlext", "discon", "element"])
    if k == "control":
        p = {"ps": rng.getrandbits(1), "spf": 0, "page_code": 0x0A}
        p.update({n: pick(rng, m) for n, m in CONTROL.items()})
    elif k == "ctrlext":
        p = {"ps": rng.getrandbits(1), "spf": 1, "page_code": 0x0A, "sub_page_code": 1}
        p.update({n: pick(rng, m) for n, m in CTRLEXT.items()})
    elif k == "discon":
        p = {"ps": rng.getrandbits(1), "spf": 0, "page_code": 0x02}
        p.update({n: pick(rng, m) for n, m in DISCON.items()})
    else:
        p = {"ps": rng.getrandbits(1), "spf": 0, "page_code": 0x1D}
        p.update({n: pick(rng, m) for n, m in ELEMENT.items()})
    return p


def mode_list(rng, ten):
    d = {"medium_type": pick(rng, 255), "device_specific_parameter": pick(rng, 255),
         "mode_pages": [mode_page(rng) for _ in range(rng.choice([1, 1, 2, 0, 3]))]}
    if ten:
        d["longlba"] = rng.getrandbits(1)
    return d


def transport_id(rng):
    p = rng.choice([0, 3, 4, 5, 5, 5, 6])
    if p == 0:
        return {"protocol_id": 0, "n_port_name": bytearray(rng.getrandbits(8) for _ in range(8))}
    if p == 3:
        return {"protocol_id": 3, "eui64_name": bytearray(rng.getrandbits(8) for _ in range(8))}
    if p == 4:
        return {"protocol_id": 4, "initiator_port_identifier": bytearray(rng.getrandbits(8) for _ in range(16))}
    if p == 6:
        return {"protocol_id": 6, "sas_address": bytearray(rng.getrandbits(8) for _ in range(8))}
    name = "iqn.1993-08.org.debian:01:abcdef0123456789"[: rng.randint(1, 9) + 15]
    t = {"protocol_id": 5, "iscsi_name": name}
    if rng.getrandbits(1):
        t["tpid_format"] = 1
        t["iscsi_initiator_session_id"] = "0123456789ab"[: rng.choice([2, 12])]
    return t


def tid_flat(t):
    """what the standard puts on the wire for an iSCSI TransportID: the name, and for format 01b the
    separator ',i,0x' and the session identifier"""
    t = dict(t)
    if t.get("protocol_id") == 5:
        txt = t["iscsi_name"]
        if t.get("tpid_format"):
            txt += ",i,0x" + t["iscsi_initiator_session_id"]
        t["iscsi_text"] = txt
    return t


def cscd(rng, std, pk):
    naa = rng.choice([2, 3, 5, 6])
    des = {"naa": naa}
    if naa == 2:
        des.update(vendor_specific_identifier_a=rng.randint(0, 4095), ieee_company_id=rng.randint(0, 2 ** 24 - 1),
                   vendor_specific_identifier_b=rng.randint(0, 2 ** 24 - 1))
    elif naa == 3:
        des.update(locally_administered_value=rng.randint(0, 2 ** 60 - 1))
    elif naa == 5:
        des.update(ieee_company_id=rng.randint(0, 2 ** 24 - 1), vendor_specific_identifier=rng.randint(0, 2 ** 36 - 1))
    else:
        des.update(ieee_company_id=rng.randint(0, 2 ** 24 - 1), vendor_specific_identifier=rng.randint(0, 2 ** 36 - 1),
                   vendor_specific_identifier_extension=rng.randint(0, 2 ** 64 - 1))
    params = {"code_set": rng.randrange(16), "association": rng.randrange(4), "designator_type": 3,
              "designator_length": 16 if naa == 6 else 8, "designator": des}
    if rng.random() < 0.35:
        # designators that are byte strings of the caller (as a parsed Device Identification page hands them out:
        # bytearrays), shorter than the 20-byte field they go into
        kind = rng.choice([0, 1, 8])
        rb = lambda k: bytearray(rng.randrange(0x20, 0x7F) for _ in range(k))
        if kind == 0:
            des = {"vendor_specific": rb(rng.choice([4, 12, 20]))}
            n = len(des["vendor_specific"])
        elif kind == 1:
            des = {"t10_vendor_id": rb(8), "vendor_specific_id": rb(rng.choice([0, 4, 12]))}
            n = 8 + len(des["vendor_specific_id"])
        else:
            des = {"scsi_name_string": rb(rng.choice([3, 7, 15])) + bytearray(1)}
            n = len(des["scsi_name_string"])
        params.update(designator_type=kind, designator_length=n, designator=des)
    if rng.random() < 0.4:
        # the dictionary comes from a decoded VPD 83h designation descriptor: it also carries that page's own keys
        params.update(piv=1, protocol_identifier=rng.choice([5, 6, 15]))
    dt = rng.choice([0, 5, 0x0E, 1, 3])
    if dt == 1:
        dts = {"pad": rng.getrandbits(1), "fixed": rng.getrandbits(1), "stream_block_length": pick(rng, 2 ** 24 - 1)}
    elif dt == 3:
        dts = {"pad": rng.getrandbits(1)}
    else:
        dts = {"pad": rng.getrandbits(1), "disk_block_length": pick(rng, 2 ** 24 - 1)}
    return {"descriptor_type_code": 0xE4, "peripheral_device_type": dt, "lu_id_type": 0,
            "relative_initiator_port_identifier": pick(rng, 65535),
            pk: params,
            "device_type_specific_parameters": dts}


SEG_NAMES = {
    0x00: ("block -> stream", "Copy from block device to stream device"),
    0x01: ("stream -> block", "Copy from stream device to block device"),
    0x02: ("block -> block", "Copy from block device to block device"),
    0x0B: ("block -> stream&application client",
           "Copy from block device to stream device and hold a copy of processed data for the application client"),
    0x0C: ("stream -> block&application client",
           "Copy from stream device to block device and hold a copy of processed data for the application client"),
    0x0D: ("block -> block&application client",
           "Copy from block device to block device and hold a copy of processed data for the application client"),
}


def segment(rng, std):
    s, d = ("source_target_descriptor_id", "destination_target_descriptor_id") if std == 4 else \
        ("source_cscd_descriptor_id", "destination_cscd_descriptor_id")
    code = rng.choice([0x00, 0x01, 0x02, 0x0B, 0x0C, 0x0D])
    x = {"descriptor_type_code": code, "cat": rng.getrandbits(1), s: pick(rng, 65535), d: pick(rng, 65535)}
    if code in (2, 0x0D):
        x.update(dc=rng.getrandbits(1), block_device_number_of_blocks=pick(rng, 65535),
                 source_block_device_logical_block_address=pick(rng, 2 ** 64 - 1),
                 destination_block_device_logical_block_address=pick(rng, 2 ** 64 - 1))
    else:
        x.update(stream_device_transfer_length=pick(rng, 2 ** 24 - 1), block_device_number_of_blocks=pick(rng, 65535),
                 block_device_logical_block_address=pick(rng, 2 ** 64 - 1))
    return x


def run(chk, replay=None):
    ev = chk.ev
    ev.assumptions += [
        "SOP TransportIDs are not judged (layout not reconstructed with certainty)",
        "MODE DATA LENGTH of a MODE SELECT list may be 0 (reserved) or the MODE SENSE value",
        "EXTENDED COPY: CSCD descriptors of type E4h with NAA designators and segment types 00h 01h 02h 0Bh 0Ch 0Dh "
        "(the ones the library implements); LID4 header layout as in SPC-4 r37; CSCD peripheral device types 00h / 05h / 0Eh "
        "(block devices both classes accept; the SPC-5 class refuses 04h and 07h, which is not judged), 01h (sequential access: "
        "FIXED, STREAM BLOCK LENGTH) and 03h (processor), LU ID TYPE 0 (the "
        "only value the library accepts), CODE SET and ASSOCIATION over their whole field width",
    ]
    if replay is not None:
        chk.only(replay, keys=("clause", "fmt", "path"))
    ec = mod("pyscsi.pyscsi.scsi_enum_command")
    rng = random.Random(chk.seed)
    n = 60 if chk.quick else 30000
    marsh, cons = [], []

    def record(fmt, cls, setname, build, inp):
        inflat = flatten(inp) or {"#empty": []}
        e = {"ev": "Marshal", "fmt": fmt, "in": inflat, "bytes": [], "exc": ""}
        cmd = None
        try:
            cmd = build()
            e["bytes"] = list(cmd.dataout)
        except Exception as ex:
            e["exc"] = type(ex).__name__
        marsh.append(e)
        ev.case((fmt, str(sorted(inflat.items()))[:400]))
        if cmd is not None:
            c = cmds.event(cls, setname, {}, "out_list", cmd, "", None)
            c["a"] = {k: v for k, v in build.cdb_args.items()}
            cons.append(c)

    from ..core.values import num
    conv = mod("pyscsi.utils.converter")
    for i in range(n):
        # application code uses the public integer helper for its own buffers and extends what it got back;
        # the lengths it handles are the ones parameter lists have
        for w_ in (1, 2, 3, 4):
            for v_ in (0, 4, 8, 16, 20, 24, 28, 32, 44, 48, 64):
                buf_ = conv.scsi_int_to_ba(v_, w_)
                buf_ += b"\xEE" * 18
        for fmt, cls, ten in (("ModeSelect6", "ModeSelect6", False), ("ModeSelect10", "ModeSelect10", True)):
            setname = rng.choice(["spc", "sbc", "smc"])
            d = mode_list(rng, ten)
            pf, sp = rng.getrandbits(1), rng.getrandbits(1)
            K = cmds.klass(cls)
            op = cmds.opcode(cls, setname)
            b = (lambda K=K, op=op, d=copy.deepcopy(d), pf=pf, sp=sp: K(op, d, pf=pf, sp=sp))
            b.cdb_args = {"pf": num(pf), "sp": num(sp)}
            record(fmt, cls, setname, b, d)
        # PERSISTENT RESERVE OUT
        setname = rng.choice(["spc", "sbc", "ssc", "smc"])
        op = cmds.opcode("PersistentReserveOut", setname)
        K = cmds.klass("PersistentReserveOut")
        keys = {"reservation_key": pick(rng, 2 ** 64 - 1), "service_action_reservation_key": pick(rng, 2 ** 64 - 1)}
        scope, prt = 0, rng.choice([1, 3, 5, 6, 7, 8])
        kind = rng.choice(["basic", "spec", "ram"])
        if kind == "basic":
            sa = rng.choice([0, 1, 2, 3, 4, 5, 6])
            kw = dict(keys, all_tg_pt=rng.getrandbits(1), aptpl=rng.getrandbits(1))
            inp, fmt = dict(kw), "PrOutBasic"
        elif kind == "spec":
            sa = 0
            tids = [transport_id(rng) for _ in range(rng.randrange(0, 4))]
            kw = dict(keys, spec_i_pt=1, all_tg_pt=rng.getrandbits(1), aptpl=rng.getrandbits(1), transport_ids=tids)
            inp, fmt = dict(kw, transport_ids=[tid_flat(t) for t in tids]), "PrOutSpecIpt"
        else:
            sa = 7
            t = transport_id(rng)
            kw = dict(keys, unreg=rng.getrandbits(1), aptpl=rng.getrandbits(1), relative_target_port_id=pick(rng, 65535), transport_id=t)
            inp, fmt = dict(kw, transport_id=tid_flat(t)), "PrOutRegMove"
        b = (lambda K=K, op=op, sa=sa, scope=scope, prt=prt, kw=copy.deepcopy(kw): K(op, sa, scope, prt, **kw))
        b.cdb_args = {"service_action": num(sa), "scope": num(scope), "pr_type": num(prt)}
        record(fmt, "PersistentReserveOut", setname, b, inp)
        # the caller keeps ONE dictionary and composes several lists from it through the public
        # marshall_dataout, changing an entry in between; every list must be what the dictionary says then
        live = copy.deepcopy(kw)
        steps = [lambda: None]
        if kind == "ram":
            steps += [lambda: live.__setitem__("transport_id", transport_id(rng)), lambda: live.pop("transport_id", None)]
        elif kind == "spec":
            steps += [lambda: live.__setitem__("transport_ids", live["transport_ids"][:1]),
                      lambda: live.__setitem__("transport_ids", [])]
        else:
            steps += [lambda: live.__setitem__("aptpl", 1 - live["aptpl"])]
        for st in steps:
            st()
            snap = copy.deepcopy(live)
            if "transport_id" in snap:
                snap["transport_id"] = tid_flat(snap["transport_id"])
            if "transport_ids" in snap:
                snap["transport_ids"] = [tid_flat(t) for t in snap["transport_ids"]]
            e = {"ev": "Marshal", "fmt": fmt, "in": flatten(snap) or {"#empty": []}, "bytes": [], "exc": ""}
            try:
                e["bytes"] = list(K.marshall_dataout(op, sa, live))
            except Exception as ex:
                e["exc"] = type(ex).__name__
            marsh.append(e)
        # EXTENDED COPY
        for std, cls, fmt in ((4, "ExtendedCopy4", "XcopyLid1"), (5, "ExtendedCopy5", "XcopyLid4")):
            setname = rng.choice(["spc", "sbc", "ssc"])
            op = cmds.opcode(cls, setname)
            K = cmds.klass(cls)
            pk = "target_descriptor_parameters" if std == 4 else "cscd_descriptor_parameters"
            tl = [cscd(rng, std, pk) for _ in range(rng.randrange(0, 3))]
            sl = [segment(rng, std) for _ in range(rng.randrange(0, 4))]
            inline = bytearray(rng.getrandbits(8) for _ in range(rng.choice([0, 1, 5])))
            if i in (1, 2):
                # LID1 has a four-byte INLINE DATA LENGTH (the third byte is needed here), LID4 a two-byte one
                # (its largest value and one that needs both bytes)
                inline = bytearray(cmds.pattern((65536 if i == 1 else 65539) if std == 4 else (65535 if i == 1 else 258), 7))
            if std == 4:
                hdr = {"list_identifier": pick(rng, 255), "sequential_striped": rng.getrandbits(1), "nrcr": rng.getrandbits(1),
                       "priority": pick(rng, 7)}
                kw = dict(hdr, target_descriptor_list=tl, segment_descriptor_list=sl, inline_data=inline)
            else:
                hdr = {"sequential_striped": rng.getrandbits(1), "list_id_usage": pick(rng, 3), "priority": pick(rng, 7),
                       "g_sense": rng.getrandbits(1), "immed": rng.getrandbits(1), "list_identifier": pick(rng, 2 ** 32 - 1)}
                kw = dict(hdr, cscd_descriptor_list=tl, segment_descriptor_list=sl, inline_data=inline)
            inp = copy.deepcopy(kw)
            # the library also takes the descriptor type codes by the names / descriptions of its tables: same meaning
            kwl = copy.deepcopy(kw)
            for sd in kwl["segment_descriptor_list"]:
                sd["descriptor_type_code"] = rng.choice([sd["descriptor_type_code"]] + list(SEG_NAMES[sd["descriptor_type_code"]]))
            for cd in kwl["target_descriptor_list" if std == 4 else "cscd_descriptor_list"]:
                if rng.random() < 0.3:
                    cd["descriptor_type_code"] = "Identification descriptor target descriptor" if std == 4 else \
                        "Identification Descriptor CSCD descriptor"
            b = (lambda K=K, op=op, kw=kwl: K(op, **kw))
            b.cdb_args = {}
            record(fmt, cls, setname, b, inp)
            if i % 3 == 0 or any(isinstance(v, bytearray) for cd in tl for v in cd[pk]["designator"].values()):
                # ... and builds a second command from the very same descriptor objects (which the library may have
                # annotated): it must be the same list again
                b2 = (lambda K=K, op=op, kw=kwl: K(op, **kw))
                b2.cdb_args = {}
                record(fmt, cls, setname, b2, inp)
            # the caller reuses one of its segment dictionaries for a descriptor of another type / size
            if i % 4 == 0:
                s_, d_ = ("source_target_descriptor_id", "destination_target_descriptor_id") if std == 4 else \
                    ("source_cscd_descriptor_id", "destination_cscd_descriptor_id")
                seg = {"descriptor_type_code": rng.choice([2, 0x0D, 0, 1]), "cat": rng.getrandbits(1), s_: pick(rng, 65535),
                       d_: pick(rng, 65535), "block_device_number_of_blocks": pick(rng, 65535)}
                lk = "target_descriptor_list" if std == 4 else "cscd_descriptor_list"
                try:
                    K(op, **{lk: [], "segment_descriptor_list": [seg]})       # first use (the library may annotate seg)
                except Exception:
                    pass
                seg["descriptor_type_code"] = rng.choice([0, 0x0B, 2, 0x0C])
                want = {k: v for k, v in seg.items() if k != "descriptor_length"}
                inp2 = {"segment_descriptor_list": [want], lk: [], "inline_data": bytearray()}
                b2 = (lambda K=K, op=op, seg=seg, lk=lk: K(op, **{lk: [], "segment_descriptor_list": [seg]}))
                b2.cdb_args = {}
                record(fmt, cls, setname, b2, inp2)
    vs, st = tlc.judge_traces("Trace_Data", "Trace_Data.cfg", marsh, name="c05trd")
    ev.judged("Trace_Data (Marshal events)", st, len(marsh))
    import json
    import re
    for i, clause, detail in vs:
        e = marsh[i]
        paths = []
        try:
            paths = sorted(json.loads(detail).get("paths", []))
        except Exception:
            pass
        leaf = sorted(set(re.sub(r"/\d+", "/*", p) for p in paths))
        if any(p.endswith("/#len") for p in leaf):
            leaf = [p for p in leaf if p.endswith("/#len")][:1]
        for lf in (leaf or [detail if clause == "Constructible" else ""]):
            chk.violation({"clause": clause, "cls": "", "field": "", "fmt": e["fmt"], "path": lf,
                           "detail": {"info": detail[:600], "bytes": e["bytes"][:96], "exc": e["exc"],
                                      "in": {k: e["in"].get(k) for k in paths[:5]}}, "what": "parameter list built by the library"},
                          dedup=(clause, e["fmt"], lf))
    vs, st = tlc.judge_traces("Trace_Command", "Trace_Command.cfg", cons, name="c05trc")
    ev.judged("Trace_Command (CDB announces the list)", st, len(cons))
    for i, clause, detail in vs:
        e = cons[i]
        if clause in ("WireFormat", "CdbLength", "OtherBitsZero"):
            chk.violation({"clause": "CdbAnnouncesList" if "parameter_list_length" in str(detail) else clause, "cls": e["cls"],
                           "field": "", "fmt": e["cls"], "path": str(detail), "detail": {"fields": detail, "event": e},
                           "what": "CDB of a parameter-list command"}, dedup=(clause, e["cls"], str(detail)))
    ev.sample({"event": {k: marsh[2][k] for k in ("fmt", "bytes", "exc")}})
    ev.cov["rule"] = ("%d random valid parameter dictionaries for each of MODE SELECT(6)/(10) (0-3 pages of four kinds), PR "
                      "OUT basic / SPEC_I_PT with 0-3 TransportIDs / REGISTER AND MOVE (five TransportID kinds, iSCSI name "
                      "lengths across the padding boundaries, with and without ISID), EXTENDED COPY LID1/LID4 (0-2 CSCD, 0-3 "
                      "segments of six types, inline data 0/1/5 bytes); dataout parsed by T10Data!ParseOut and compared with "
                      "the input, embedded lengths exact, CDB parameter list length = list length. distinct by (format, "
                      "input)." % n)


if __name__ == "__main__":
    main("C05", run)
