"""C02 - CDB decoding is the exact inverse of CDB encoding."""
import random

from ..core import cmds
from ..core.runner import main
from ..core.values import num
from . import cdb_common as cc


def record(chk, cases, n_per_class):
    """code -> spec: random joint assignments to all fields of a class, encoded with
    marshall_cdb and decoded again with unmarshall_cdb, each call one event"""
    W = {}
    for c in cases:
        d = W.setdefault(c["cls"], {})
        for k, v in c["dict"].items():
            x = 0
            for b in v:
                x = (x << 8) | b
            d[k] = max(d.get(k, 0), x)
        W[c["cls"]]["#opv"] = c["opv"]
        W[c["cls"]]["#sa"] = c["sa"]
    rng = random.Random(chk.seed)
    events = []
    for name in sorted(W):
        try:
            cmds.benign(name)
        except Exception:
            continue            # class cannot be instantiated: C05 reports it
        K = cmds.klass(name)
        mx = {k: v for k, v in W[name].items() if not k.startswith("#")}
        for i in range(n_per_class):
            mode = i % 4
            d = {}
            for k, m in mx.items():
                if mode == 0:
                    d[k] = rng.randint(0, m)
                elif mode == 1:
                    d[k] = m                          # every field at max simultaneously
                elif mode == 2:
                    d[k] = m if (hash(k) + i) % 2 else 0   # alternating neighbours
                else:
                    d[k] = rng.choice([0, m, m >> 1, (m >> 1) + 1, rng.randint(0, m)])
            d["opcode"] = W[name]["#opv"]
            if W[name]["#sa"] is not None:
                d["service_action"] = W[name]["#sa"]
            cmds.benign(name)
            if i % 3 == 0:
                # the class first encodes a dictionary that names no operation code (its result is judged by C09 / C14)
                try:
                    K.marshall_cdb({k: v for k, v in d.items() if k != "opcode"})
                except Exception:
                    pass
            try:
                out = K.marshall_cdb(dict(d))
            except Exception as ex:
                chk.violation({"clause": "CodecRaised", "cls": name, "field": "", "detail": {"raised": repr(ex), "dict": d}},
                              dedup=("CodecRaised", name, type(ex).__name__))
                continue
            events.append({"ev": "EncodeDict", "cls": name, "d": {k: num(v) for k, v in d.items()}, "out": list(out)})
            cmds.benign(name)
            try:
                dec = K.unmarshall_cdb(bytearray(out))
            except Exception as ex:
                chk.violation({"clause": "CodecRaised", "cls": name, "field": "", "detail": {"raised": repr(ex)}},
                              dedup=("CodecRaised", name, "dec", type(ex).__name__))
                continue
            events.append({"ev": "DecodeBytes", "cls": name, "in": list(out),
                           "out": {k: num(int(v)) for k, v in dec.items() if isinstance(v, int)}})
            # re-encoding the decoded dictionary, exactly as it came back, reproduces the bytes
            cmds.benign(name)
            try:
                again = bytes(K.marshall_cdb(dict(dec)))
            except Exception as ex:
                again = ("raised " + type(ex).__name__).encode()
            if again != bytes(out):
                chk.violation({"clause": "EncDec", "cls": name, "field": "re-encode of the decoded dictionary",
                               "detail": {"bytes": list(out), "decoded": {k: int(v) for k, v in dec.items() if isinstance(v, int)},
                                          "re-encoded": list(again)}}, dedup=("EncDec", name, "reencode"))
            # the caller edits the dictionary it got, then decodes the same bytes again:
            # the second result must again be what the bytes say
            for k in list(dec):
                if isinstance(dec[k], int):
                    dec[k] = 0 if dec[k] else 1
            cmds.benign(name)
            dec2 = K.unmarshall_cdb(bytearray(out))
            events.append({"ev": "DecodeBytes", "cls": name, "in": list(out),
                           "out": {k: num(int(v)) for k, v in dec2.items() if isinstance(v, int)}})
            chk.ev.case((name, str(sorted(d.items()))))
            # repeating a call with equal inputs yields equal bytes
            cmds.benign(name)
            if bytes(K.marshall_cdb(dict(d))) != bytes(out):
                chk.violation({"clause": "EncDec", "cls": name, "field": "repeat", "detail": "second call differs"})
    return events


def run(chk, replay=None):
    chk.ev.assumptions += [
        "each static marshall_cdb/unmarshall_cdb call is made right after constructing an instance of the same class, "
        "so that C02 is not confounded by C09",
        "keys the library's decoder returns beyond the spec's (none expected) are not compared",
    ]
    if replay is not None:
        chk.only(replay)
    want = cc.CLAUSES["C02"]
    cases = cc.spec_cases(chk, "c02mc")
    cc.replay(chk, cases, want)
    chk.ev.sample({"spec_case": {k: cases[len(cases) // 2][k] for k in ("cls", "dict", "cdb")}})
    events = record(chk, cases, 24 if chk.quick else 5000)
    cc.judge(chk, events, want, "c02tr")
    chk.ev.sample({"event": events[1]})
    chk.ev.cov["rule"] = ("every MC_T10Cdb case at dictionary level (marshall_cdb(dict) == predicted bytes, "
                          "unmarshall_cdb(bytes) == dict, for 42 classes); random / all-max / alternating joint "
                          "assignments to all fields recorded and judged by Trace_Command (DictEncode/DictDecode). "
                          "distinct by (class, dictionary).")


if __name__ == "__main__":
    main("C02", run)
