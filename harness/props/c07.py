"""C07 - a command that did not complete with GOOD status never looks successful."""
import os
import random

from ..core import bindings, cmds, tlc
from ..core.lib import mod
from ..core.runner import main

SENSE = {
    "none": None,
    "f1": bytes([0x70, 0, 5, 0, 0, 0, 0, 10, 0, 0, 0, 0, 0x24, 0x00, 0, 0, 0, 0]),
    "d2": bytes([0x72, 6, 0x29, 0x00, 0, 0, 0, 0]),
    "f3": bytes([0xF0, 0, 2, 0, 0, 0, 1, 10, 0, 0, 0, 0, 0x04, 0x01, 0, 0, 0, 0]),
    "t8": bytes([0x70, 0, 3, 0, 0, 0, 0, 0]),
    "t4": bytes([0x72, 4, 0x44, 0x00]),
}
ROUTES = ("direct", "direct_prevraw", "facade_execute", "facade_execute_prevraw", "facade_tur", "facade_inquiry", "facade_ata",
          "facade_tur_after_ata", "facade_inquiry_after_ata", "facade_tur_after_failed_ata", "direct_with", "facade_with")


class World(object):
    """both transports over the stand-in bindings"""

    def __init__(self):
        self.fs, self.fi = bindings.install(True, True)
        self.dir = bindings.shm_dir("c07")
        self.path = os.path.join(self.dir, "sg0")
        open(self.path, "wb").close()
        self.state = {"st": 0, "s": None}

    def target(self, cdb, dataout, datain):
        return self.state["st"], self.state["s"]

    def device(self, tr):
        self.fs.reset(self.target)
        self.fi.reset(self.target)
        if tr == "sgio":
            return mod("pyscsi.pyscsi.scsi_device").SCSIDevice(self.path, readwrite=True)
        return mod("pyscsi.pyiscsi.iscsi_device").ISCSIDevice("iscsi://127.0.0.1:3260/iqn.t/0", "iqn.i")

    def close(self):
        try:
            os.unlink(self.path)
            os.rmdir(self.dir)
        except OSError:
            pass


def sense_id(b):
    if b is None:
        return "none"
    if len(b) == 0:
        return "empty"
    for k, v in SENSE.items():
        if v is not None and bytes(b) == v:
            return k
    return "other"


HELD = []       # (exception object, outcome recorded when it was raised)


def reinspect(chk, where):
    """an error the caller still holds keeps reporting what the target sent with THAT completion"""
    n = 0
    for ex, o in HELD:
        if o["exc"] != "CheckCondition" or o["key"] == 255:
            continue
        n += 1
        try:
            now = (int(ex.data["sense_key"]), int(ex.asc), int(ex.ascq))
        except Exception as e2:
            now = ("raised", type(e2).__name__, "")
        if now != (o["key"], o["asc"], o["ascq"]):
            chk.violation({"clause": "SenseFaithful", "tr": where, "route": "held", "st": 2, "s": "", "raw": False,
                           "prev": "history", "cls": "", "field": "",
                           "detail": {"when_raised": [o["key"], o["asc"], o["ascq"]], "inspected_later": list(now)},
                           "what": "a CheckCondition held by the caller, inspected after later commands failed"},
                          dedup=("SenseFaithful", where, "held"))
    del HELD[:]
    return n


def observe(fn, cmd_of):
    """run fn(); project the outcome onto the spec's outcome record"""
    o = {"how": "returned", "exc": "", "key": 0, "asc": 0, "ascq": 0, "raw": "none"}
    cmd = None
    try:
        cmd = fn()
    except Exception as ex:
        o["how"] = "raised"
        o["exc"] = type(ex).__name__
        HELD.append((ex, o))
        if o["exc"] == "CheckCondition":
            try:
                o["key"] = int(ex.data["sense_key"])
                o["asc"] = int(ex.asc)
                o["ascq"] = int(ex.ascq)
            except Exception:
                o["key"], o["asc"], o["ascq"] = 255, 255, 255
    c = cmd if cmd is not None else cmd_of()
    if c is None:
        o["raw"] = "?"          # the facade raised: the command object is not observable
    elif getattr(c, "raw_sense_data", None) is not None:
        o["raw"] = sense_id(c.raw_sense_data)
    return o


def one(w, tr, prev, st, s, raw, route):
    """set up the history (the command object carries `prev`), then the execution under test"""
    dev = w.device(tr)
    try:
        if route.endswith("_with"):
            # the caller uses the device / the facade as a context manager, and on the way out the iSCSI binding
            # reports that its disconnect failed (-1): the error raised inside the block still reaches the caller
            import harness.fakes.iscsi as fake_iscsi
            cmd = cmds.klass("TestUnitReady")(dev.opcodes.TEST_UNIT_READY)
            facade = None
            if route == "facade_with":
                w.state.update(st=0, s=None)
                facade = mod("pyscsi.pyscsi.scsi").SCSI(dev)
            w.state.update(st=st, s=SENSE[s])

            def go():
                fake_iscsi.DISCONNECT_RC = -1
                try:
                    if facade is None:
                        with dev:
                            dev.execute(cmd, en_raw_sense=raw)
                    else:
                        with facade as f:
                            f.execute(cmd, en_raw_sense=raw)
                finally:
                    fake_iscsi.DISCONNECT_RC = 0
            return observe(go, lambda: cmd)
        if route.startswith("direct") or route.startswith("facade_execute"):
            # the same command object is executed twice; the first execution may have asked for raw sense
            if route.startswith("direct"):
                ex = dev
            else:
                w.state.update(st=0, s=None)
                ex = mod("pyscsi.pyscsi.scsi").SCSI(dev)
            cmd = cmds.klass("TestUnitReady")(dev.opcodes.TEST_UNIT_READY)
            if prev != "none":
                w.state.update(st=2, s=SENSE[prev])
                try:
                    ex.execute(cmd, en_raw_sense=route.endswith("prevraw"))
                except Exception:
                    pass
            w.state.update(st=st, s=SENSE[s])
            return observe(lambda: ex.execute(cmd, en_raw_sense=raw) and None, lambda: cmd)
        w.state.update(st=0, s=None)
        facade = mod("pyscsi.pyscsi.scsi").SCSI(dev)
        if prev != "none":
            w.state.update(st=2, s=SENSE[prev])
            try:
                facade.testunitready()
            except Exception:
                pass
        if route.endswith("_after_failed_ata"):
            # the one facade method that asks for raw sense ran on this facade before and FAILED in the transport
            # (BUSY): whatever it had switched on for itself is off again
            w.state.update(st=8, s=None)
            try:
                facade.atapassthrough16(0, 0, 0, 0, 0, 0, 0, 0, 0, 0xEC)
            except Exception:
                pass
        elif route.endswith("_after_ata"):
            # the one facade method that asks for raw sense ran (successfully) on this facade before
            w.state.update(st=0, s=None)
            facade.atapassthrough16(0, 0, 0, 0, 0, 0, 0, 0, 0, 0xEC)
        w.state.update(st=st, s=SENSE[s])
        if route.startswith("facade_tur"):
            return observe(lambda: facade.testunitready(), lambda: None)
        if route.startswith("facade_inquiry"):
            return observe(lambda: facade.inquiry(), lambda: None)
        return observe(lambda: facade.atapassthrough16(0, 0, 0, 0, 0, 0, 0, 0, 0, 0xEC), lambda: None)
    finally:
        try:
            dev.close()
        except Exception:
            pass


def every_facade_method(w, chk, events):
    """a CHECK CONDITION / BUSY completion surfaces through EVERY facade method, whatever optional argument is set"""
    import inspect
    from .c13 import METHODS, PRIN, optional_args
    from .c17 import _cscd, _seg
    ec = mod("pyscsi.pyscsi.scsi_enum_command")
    calls = []
    for m, (cls, req, fmt) in sorted(METHODS.items()):
        variants = [(cls, None)] if cls != "#prin" else [(PRIN[k][0], k) for k in PRIN]
        for c, sa in variants:
            opt = [n for n in optional_args(cmds.klass(c)) if n not in req]
            for o in [None] + opt:
                def call(f, m=m, req=req, o=o, sa=sa, c=c):
                    args = []
                    for n in req:
                        args.append(sa if n == "service_action" else (bytearray(4) if n == "data" else 1))
                    kw = {o: 1} if o else {}
                    if m.startswith("atapassthrough"):
                        kw.setdefault("blocksize", 4)
                    if m == "readcd":
                        kw.setdefault("est", 1)
                        kw.setdefault("mcsb", 2)
                    return getattr(f, m)(*args, **kw)
                setname = [x for x in ("sbc", "smc", "mmc", "spc", "ssc") if cmds.opcode(c, x) is not None][0]
                calls.append(("%s(%s)" % (m, o or ""), m, call, setname))
    page = {"medium_type": 0, "device_specific_parameter": 0, "mode_pages": [{"ps": 0, "spf": 0, "page_code": 0x0A, "swp": 1}]}
    for pf in (0, 1):
        calls.append(("modeselect6(pf=%d)" % pf, "modeselect6", lambda f, pf=pf: f.modeselect6(dict(page), pf=pf), "sbc"))
        calls.append(("modeselect10(pf=%d)" % pf, "modeselect10", lambda f, pf=pf: f.modeselect10(dict(page, longlba=0), pf=pf), "sbc"))
    for sa in range(0, 9):
        calls.append(("persistentreserveout(%d)" % sa, "persistentreserveout",
                      lambda f, sa=sa: f.persistentreserveout(sa, 0, 1, reservation_key=1, service_action_reservation_key=2), "sbc"))
    for k in ("sequential_striped", "nrcr", "priority", "list_identifier", None):
        calls.append(("extendedcopy4(%s)" % k, "extendedcopy4", lambda f, k=k: f.extendedcopy4(**({k: 1} if k else {})), "sbc"))
    for k in ("sequential_striped", "list_id_usage", "priority", "g_sense", "immed", "list_identifier", None):
        calls.append(("extendedcopy5(%s)" % k, "extendedcopy5", lambda f, k=k: f.extendedcopy5(**({k: 1} if k else {})), "sbc"))
    n = 0
    for tr in ("sgio", "iscsi"):
        for st, s in ((2, "f1"), (2, "d2"), (8, "none"), (0x18, "none")):
            for label, m, call, setname in calls:
                dev = w.device(tr)
                try:
                    w.state.update(st=0, s=None)
                    facade = mod("pyscsi.pyscsi.scsi").SCSI(dev, 4)
                    dev.opcodes = getattr(ec, setname)
                    w.state.update(st=st, s=SENSE[s])
                    raw = m.startswith("atapassthrough")
                    o = observe(lambda: call(facade), lambda: None)
                    events.append({"tr": tr, "st": st, "s": s, "raw": raw, "o": o, "route": "facade:" + label, "prev": "none"})
                    chk.ev.case((tr, "facade", label, st, s))
                    n += 1
                finally:
                    try:
                        dev.close()
                    except Exception:
                        pass
    return n


def match(o, a):
    return (o["how"] == a["how"] and (a["exc"] == "*" or o["exc"] == a["exc"])
            and (a["exc"] != "CheckCondition" or (o["key"], o["asc"], o["ascq"]) == (a["key"], a["asc"], a["ascq"]))
            and (a["raw"] == "none" or o["raw"] in (a["raw"], "?")))


def run(chk, replay=None):
    ev = chk.ev
    ev.assumptions += [
        "cython-sgio contract as rendered by harness/fakes/sgio.py: returns on GOOD, raises CheckConditionError(sense) "
        "on CHECK CONDITION and UnspecifiedError otherwise (the binding hides the status byte: over SG_IO any "
        "exception is accepted for statuses other than GOOD and CHECK CONDITION)",
        "cython-iscsi contract as rendered by harness/fakes/iscsi.py: Task.status, Task.raw_sense only when sense was sent",
        "with raw sense requested both 'attach and return' and 'attach and raise' are accepted",
    ]
    if replay is not None:
        chk.only(replay, keys=("clause", "tr", "route", "st", "s", "raw", "prev"))
    cfg = "MC_Transport_quick.cfg" if chk.quick else "MC_Transport_thorough.cfg"
    r = tlc.run("MC_Transport", cfg, workers=16, coverage=True, timeout=1200, name="c07mc")
    if not r.ok:
        raise tlc.TLCFailure("MC_Transport violated %s\n%s" % (r.violated, r.counterexample[:2000]))
    for a in ("TargetCompletes", "BindingReports", "LibraryMaps"):
        if r.coverage.get(a, (0, 0))[0] == 0:
            raise tlc.TLCFailure("MC_Transport vacuous: %s never taken" % a)
    ev.tlc("MC_Transport/" + cfg, r)
    cases = [v for t, v in r.prints if t == "CASE"]
    w = World()
    events = []
    try:
        rep = {0, 1, 2, 4, 8, 16, 24, 40, 48, 64, 255}
        for c in cases:
            for route in ROUTES:
                # all 256 statuses on the direct route with a fresh object; representative ones elsewhere
                if (route != "direct" or c["prev"] != "none") and c["st"] not in rep and chk.quick:
                    continue
                if route != "direct" and c["st"] not in rep:
                    continue
                if route.endswith("_with") and c["prev"] != "none":
                    continue
                if route.endswith("prevraw") and c["prev"] == "none":
                    continue
                if route in ("facade_tur", "facade_inquiry", "facade_tur_after_ata", "facade_inquiry_after_ata",
                             "facade_tur_after_failed_ata") and c["raw"]:
                    continue      # these facade methods never ask for raw sense
                if route == "facade_ata" and not c["raw"]:
                    continue      # ATA pass-through always asks for raw sense
                o = one(w, c["tr"], c["prev"], c["st"], c["s"], c["raw"], route)
                ev.case((c["tr"], route, c["prev"], c["st"], c["s"], c["raw"]), nontrivial=c["st"] != 0)
                e = {"tr": c["tr"], "st": c["st"], "s": c["s"], "raw": c["raw"], "o": o, "route": route, "prev": c["prev"]}
                events.append(e)
                if c["tr"] == "sgio" and c["st"] == 2 and c["s"] == "none":
                    # the same completion through a binding that reports CHECK CONDITION with an EMPTY sense buffer
                    # (judged by Trace_Transport under the transport name "sgio_e")
                    w.fs.CC_WITHOUT_SENSE = True
                    try:
                        o2 = one(w, "sgio", c["prev"], c["st"], c["s"], c["raw"], route)
                    finally:
                        w.fs.CC_WITHOUT_SENSE = False
                    events.append({"tr": "sgio_e", "st": c["st"], "s": c["s"], "raw": c["raw"], "o": o2, "route": route, "prev": c["prev"]})
                if not any(match(o, a) for a in c["allowed"]):
                    clause = "NoSilentFailure" if o["how"] == "returned" else \
                        ("SenseFaithful" if o["exc"] == "CheckCondition" else "NamedStatusNamedError")
                    chk.violation({"clause": clause, "tr": c["tr"], "route": route, "st": c["st"], "s": c["s"],
                                   "raw": c["raw"], "prev": c["prev"], "cls": "", "field": "",
                                   "detail": {"allowed": c["allowed"], "observed": o}, "what": "MC_Transport case"},
                                  dedup=(clause, c["tr"], route, c["st"] if c["st"] in rep else "other", c["s"],
                                         c["raw"], c["prev"] != "none"))
        ev.replayed(len(events))
        ev.cov["held_errors_reinspected_cases"] = reinspect(chk, "cases")
        ev.sample({"spec_case": cases[10], "observed": events[10]["o"]})
        ev.cov["facade_method_calls_with_failing_target"] = every_facade_method(w, chk, events)
        # code -> spec: random fault sequences on a few long-lived command objects
        rng = random.Random(chk.seed)
        seq = []
        for tr in ("sgio", "iscsi"):
            dev = w.device(tr)
            objs = [cmds.klass("TestUnitReady")(dev.opcodes.TEST_UNIT_READY) for _ in range(3)]
            for _ in range(50 if chk.quick else 20000):
                cmd = rng.choice(objs)
                st = rng.choice([0, 0, 2, 2, 2, 8, 24, 40, 48, 64, 4, rng.randint(0, 255)])
                s = rng.choice(["none", "f1", "d2", "f3", "f1", "t8", "t4"]) if st == 2 else "none"
                raw = rng.random() < 0.3
                w.state.update(st=st, s=SENSE[s])
                o = observe(lambda: dev.execute(cmd, en_raw_sense=raw) and None, lambda: cmd)
                seq.append({"tr": tr, "st": st, "s": s, "raw": raw, "o": o, "route": "direct", "prev": "history"})
                ev.case((tr, "seq", st, s, raw, len(seq)))
            ev.cov["held_errors_reinspected_" + tr] = reinspect(chk, tr)
        allev = events + seq
        vs, stt = tlc.judge_traces("Trace_Transport", "Trace_Transport.cfg", allev, name="c07tr")
        ev.judged("Trace_Transport", stt, len(allev))
        rep2 = rep
        for i, clause, detail in vs:
            e = allev[i]
            chk.violation({"clause": clause, "tr": e["tr"], "route": e["route"], "st": e["st"], "s": e["s"],
                           "raw": e["raw"], "prev": e["prev"], "cls": "", "field": "",
                           "detail": {"expected": detail, "observed": e["o"]}, "what": "Exec event"},
                          dedup=(clause, e["tr"], e["route"], e["st"] if e["st"] in rep2 else "other", e["s"], e["raw"],
                                 e["prev"] != "none"))
        ev.sample({"event": seq[3]})
    finally:
        w.close()
    ev.cov["rule"] = ("every (transport, sense carried by the object from an earlier execution, status 0..255, sense "
                      "sent now, raw flag) exported by MC_Transport, on the direct route and through three facade "
                      "methods (no decode / decode / raw-sense ATA), executed over the stand-in bindings and compared "
                      "with the allowed outcomes; random fault sequences on long-lived command objects judged by "
                      "Trace_Transport. distinct by (transport, route, history, status, sense, raw); non-trivial = "
                      "status not GOOD.")


if __name__ == "__main__":
    main("C07", run)
