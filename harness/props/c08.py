"""C08 - sense data is always decodable and printable, with the right key/ASC/ASCQ."""
import contextlib
import copy
import io
import random
import re

from ..core import bindings, tlc
from ..core.lib import mod
from ..core.runner import main


def norm(s):
    return re.sub(r"[^A-Z0-9]", "", s.upper())


def probe(K, b, texts, keynames, keep=None, obj=None):
    """construct (or re-inspect obj), str(), print_data(); project what the object reports"""
    e = {"bytes": list(b), "built": False, "strok": False, "printok": False, "rc": -1, "valid": 0, "key": -1,
         "asc": -1, "ascq": -1, "has_text": False, "has_key": False}
    try:
        if obj is None and sum(b) % 2:
            # the binding hands its sense area over as it is and uses it again for the next command: what the
            # error reports is what the area held when the error was raised
            area = bytearray(b)
            x = K(area)
            area[:] = bytes((v ^ 0xFF) & 0xFF for v in area)
        else:
            x = K(bytes(b)) if obj is None else obj
        e["built"] = True
        if keep is not None:
            keep.append(x)
    except Exception as ex:
        e["error"] = repr(ex)[:80]
        return e
    try:
        e["rc"] = int(x.response_code)
        e["valid"] = 1 if x.valid else 0
        if isinstance(x.data, dict) and "sense_key" in x.data:
            e["key"] = int(x.data["sense_key"])
        a, q = getattr(x, "asc", None), getattr(x, "ascq", None)
        e["asc"] = int(a) if a is not None else -1
        e["ascq"] = int(q) if q is not None else -1
    except Exception as ex:
        e["error"] = repr(ex)[:80]
    try:
        s = str(x)
        e["strok"] = True
        # an error that was caught is handed on (copy.copy / copy.deepcopy re-construct it): it still prints the same
        if str(copy.copy(x)) != s or str(copy.deepcopy(x)) != s:
            e["strok"] = False
            e["error"] = "a copy of the error prints differently"
        n = norm(s)
        fixed = (b[0] & 0x7F) in (0x70, 0x71)
        if (b[0] & 0x7F) in (0x70, 0x71, 0x72, 0x73):
            g = lambda i: b[i] if i < len(b) else 0
            code = (g(12) << 8 | g(13)) if fixed else (g(2) << 8 | g(3))
            key = (g(2) if fixed else g(1)) & 0x0F
            e["has_text"] = code in texts and texts[code] in n
            e["has_key"] = bool(keynames[key]) and keynames[key] in n
    except Exception as ex:
        e["error"] = repr(ex)[:80]
    try:
        with contextlib.redirect_stdout(io.StringIO()):
            x.print_data()
        e["printok"] = True
    except Exception as ex:
        e["error"] = repr(ex)[:80]
    return e


def run(chk, replay=None):
    ev = chk.ev
    ev.assumptions += [
        "ASC/ASCQ wording is judged on 98 assignments written from memory (T10Sense!CuratedTexts) and on the 707 "
        "assignments of T10SenseTable.tla (transcribed once from the pinned tree's table and read line by line; TLC "
        "checks that the two agree where they overlap); every other code point is checked for totality and for "
        "reporting the right numbers only",
        "bytes the target did not send (short buffers) read as zero",
        "texts are compared after normalisation (upper case, letters and digits only)",
    ]
    if replay is not None:
        chk.only(replay, keys=("clause", "fmt", "kind"))
    r = tlc.run("MC_T10Sense", workers=8, name="c08mc")
    if not r.ok:
        raise tlc.TLCFailure("MC_T10Sense violated %s" % r.violated)
    ev.tlc("MC_T10Sense", r)
    cases = [v for t, v in r.prints if t == "CASE"]
    texts = {c["asc"] * 256 + c["ascq"]: c["text"] for c in cases}
    keynames = {c["key"]: c["keyname"] for c in cases}
    SCC = mod("pyscsi.pyscsi.scsi_sense").SCSICheckCondition
    bindings.install(True, True)
    devK = mod("pyscsi.pyscsi.scsi_device").SCSIDevice.CheckCondition
    iK = mod("pyscsi.pyiscsi.iscsi_device").ISCSIDevice.CheckCondition
    rng = random.Random(chk.seed)
    events, kinds = [], []

    prev = []

    def add(K, b, kind):
        keep = []
        events.append(probe(K, b, texts, keynames, keep))
        kinds.append(kind)
        ev.case((kind, bytes(b[:16])), nontrivial=True)
        # an error object built earlier still reports ITS sense data after later ones were built
        if prev and len(events) % 7 == 0:
            pb, px = prev[0]
            events.append(probe(K, pb, texts, keynames, None, px))
            kinds.append("re-inspected after a later error was built")
        if keep:
            prev[:] = [(list(b), keep[0])]
    # 1. spec cases: 4 formats x 16 keys x curated codes
    for c in (cases if not chk.quick else cases[::3]):
        add(SCC, c["bytes"], "spec case")
    # 2. all 65536 ASC/ASCQ pairs (quick: a boundary subset plus a sample), both current formats
    if chk.quick:
        pairs = [(a, q) for a in range(256) for q in (0, 1, 0x7F, 0x80, 0xFF)] + \
                [(rng.randrange(256), rng.randrange(256)) for _ in range(1500)]
    else:
        pairs = [(a, q) for a in range(256) for q in range(256)]
    for a, q in pairs:
        add(SCC, [0x70, 0, 5, 0, 0, 0, 0, 10, 0, 0, 0, 0, a, q, 0, 0, 0, 0], "all pairs fixed")
        add(SCC, [0x72, 6, a, q, 0, 0, 0, 0], "all pairs descriptor")
    # 3. response codes x keys x a few pairs, valid bit and flag bits
    for rc in (0x70, 0x71, 0x72, 0x73, 0x00, 0x7E, 0x7F, 0x01, 0x6F, 0x74):
        for key in range(16):
            for a, q in ((0, 0), (0x24, 0), (0x29, 1), (0x80, 0x15), (0x3A, 0xFF), (0x77, 0x77), (0x04, 0x01), (0xFF, 0xFF)):
                for hi in (0, 0x80):
                    for flags in (0, 0xF0):
                        if rc in (0x72, 0x73):
                            b = [rc | hi, key | flags, a, q, 0x80, 0, 0, 0]
                        else:
                            b = [rc | hi, 0, key | flags, 1, 2, 3, 4, 10, 0, 0, 0, 0, a, q, 0, 0x80, 0, 0]
                        add(rng.choice((SCC, devK, iK)), b, "formats x keys")
    # 4. every length 1..252, both formats, random other content
    for n in range(1, 253):
        for rc in (0x70, 0x72, 0x71, 0x73):
            b = [rc] + [rng.randrange(256) for _ in range(n - 1)]
            add(SCC, b, "lengths")
        b = [rng.randrange(256) for _ in range(n)]
        add(devK, b, "random bytes")
    vs, st = tlc.judge_traces("Trace_Sense", "Trace_Sense.cfg", events, name="c08tr")
    ev.judged("Trace_Sense", st, len(events))
    for i, clause, detail in vs:
        e = events[i]
        rc = e["bytes"][0] & 0x7F
        fmt = {0x70: "fixed", 0x71: "fixed-deferred", 0x72: "descriptor", 0x73: "descriptor-deferred"}.get(rc, "unknown")
        chk.violation({"clause": clause, "cls": "", "field": "", "fmt": fmt, "kind": kinds[i],
                       "detail": {"expected": detail, "event": e}, "what": "sense buffer"},
                      dedup=(clause, fmt, e.get("error", "")[:40], kinds[i] if clause in ("T10Text",) else ""))
    ev.sample({"event": events[0]})
    ev.sample({"event": events[len(events) // 2]})
    ev.cov["rule"] = ("spec cases (4 formats x 16 keys x 97 curated codes), %s ASC/ASCQ pairs in both current formats, "
                      "10 response codes x 16 keys x 8 pairs x valid bit x flag bits through all three CheckCondition "
                      "classes, every buffer length 1..252 in four formats plus random bytes; each constructed, str()ed "
                      "and print_data()ed, projected and judged by Trace_Sense. distinct by (group, first 16 bytes)."
                      % ("a boundary subset + sample of the" if chk.quick else "all 65536"))


if __name__ == "__main__":
    main("C08", run)
