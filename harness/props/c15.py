"""C15 - commands never go through a stale device handle; handles are released."""
import itertools
import os
import random

from ..core import bindings, cmds, tlc
from ..core.lib import mod
from ..core.runner import main


class Tracked(object):
    """file object handed out by the (intercepted) open(): real file underneath, close()
    can be made to fail after the descriptor was released (EIO on close)"""

    def __init__(self, f, world):
        self._f = f
        self._w = world
        self.close_calls = 0
        self.fail_close = False

    def fileno(self):
        return self._f.fileno()

    @property
    def closed(self):
        return self._f.closed

    @property
    def mode(self):
        return self._f.mode

    def close(self):
        self.close_calls += 1
        self._f.close()
        if self.fail_close:
            self.fail_close = False
            raise OSError(5, "Input/output error (injected on close)")

    def __getattr__(self, k):
        return getattr(self._f, k)


class _OsView(object):
    """the os module as the device module sees it: inode numbers are renumbered 0, 1, 2 ... in order of first
    appearance (one-to-one, so nothing the library may conclude changes), which puts the boundary value 0 - a
    legitimate inode number - into every history"""

    def __init__(self):
        self._map = {}

    def __getattr__(self, k):
        return getattr(os, k)

    def stat(self, path, *a, **k):
        r = os.stat(path, *a, **k)
        ino = self._map.setdefault(r.st_ino, len(self._map))

        class R(object):
            st_ino = ino

            def __getattr__(self_, k_):
                return getattr(r, k_)
        return R()


class World(object):
    def __init__(self):
        self.fs, _ = bindings.install(True, True)
        self.sd = mod("pyscsi.pyscsi.scsi_device")
        self.sd.os = _OsView()
        self.dir = bindings.shm_dir("c15")
        self.path = os.path.join(self.dir, "sg0")
        self.files = []
        self.opens = []
        self.fail_open = False
        self.n = 0
        world = self

        def tracking_open(path, mode="r", buffering=-1, *a, **k):
            world.opens.append((path, mode))
            if world.fail_open:
                world.fail_open = False
                raise PermissionError(13, "Permission denied (injected on open)")
            t = Tracked(open(path, mode, buffering=buffering), world)
            world.files.append(t)
            return t
        # the device module calls the builtin open by name; shadow it in the module namespace
        self.sd.open = tracking_open

    def new_node(self):
        self.n += 1
        tmp = self.path + ".new%d" % self.n
        with open(tmp, "wb") as f:
            f.write(b"x")
        os.rename(tmp, self.path)       # replacing rename: a different inode at the same path

    def present(self):
        return os.path.exists(self.path)

    def fresh_device(self, detect, rw, how="explicit"):
        for t in self.files:
            if not t.closed:
                t._f.close()
        del self.files[:]
        del self.opens[:]
        self.fail_open = False
        self.sd.os = _OsView()          # a fresh numbering per history: the first node is inode 0
        if self.present():
            os.unlink(self.path)
        self.new_node()
        self.fs.reset(None)
        # detection is on unless switched off: the default constructor and utils.init_device give a
        # device with detection enabled just as the explicit flag does
        if detect and how == "default":
            return self.sd.SCSIDevice(self.path, rw)
        if detect and how == "init_device":
            return mod("pyscsi.utils").init_device(self.path, read_write=rw)
        # flags are given as booleans or as 0 / 1 (configuration files, argparse): the same meaning
        self.made = getattr(self, "made", 0) + 1
        if self.made % 2:
            return self.sd.SCSIDevice(self.path, readwrite=int(bool(rw)), detect_replugged=int(bool(detect)))
        return self.sd.SCSIDevice(self.path, readwrite=rw, detect_replugged=detect)

    def obs(self, out, ncalls_before):
        calls = self.fs.CALLS[ncalls_before:]
        sent = "none"
        if calls:
            try:
                cur = os.stat(self.path).st_ino
            except OSError:
                cur = None
            sent = "current" if (cur is not None and calls[-1]["ino"] == cur) else "stale"
        live = sum(1 for t in self.files if not t.closed)
        hopen = bool(self.files) and not self.files[-1].closed
        # access mode of the handle the library holds now (the last one it opened)
        m = self.opens[-1][1] if self.opens else "rb"
        return {"out": out, "sent": sent, "live": live, "hopen": hopen, "hmode": "rw" if ("+" in m or "w" in m) else "ro"}

    def cleanup(self):
        try:
            del self.sd.open
        except Exception:
            pass
        self.sd.os = os
        for t in self.files:
            if not t.closed:
                t._f.close()
        for f in os.listdir(self.dir):
            os.unlink(os.path.join(self.dir, f))
        os.rmdir(self.dir)


class Boom(Exception):
    pass


def run_history(w, detect, rw, acts, how="explicit"):
    """drive one history; returns the events (env actions that do not apply are skipped)"""
    ev = [{"a": "reset", "detect": detect, "mode": "rw" if rw else "ro"}]
    dev = w.fresh_device(detect, rw, how)
    tur = cmds.klass("TestUnitReady")(dev.opcodes.TEST_UNIT_READY)
    closed = False
    armed = False
    for a in acts:
        n0 = len(w.fs.CALLS)
        if a == "replug":
            if not w.present():
                continue
            w.new_node()
        elif a == "unplug":
            if not w.present():
                continue
            os.unlink(w.path)
        elif a == "plug":
            if w.present():
                continue
            w.new_node()
        elif a == "armopen":
            if closed or not detect or w.fail_open:
                continue
            w.fail_open = True
        elif a == "arm":
            if closed or armed or not w.files or w.files[-1].closed:
                continue
            w.files[-1].fail_close = True
            armed = True
        elif a == "exec":
            if closed:
                continue
            try:
                dev.execute(tur)
                out = "ok"
            except Exception:
                out = "error"
            if w.files and not any(t.fail_close for t in w.files):
                armed = False
            ev.append({"a": "exec", "obs": w.obs(out, n0)})
            continue
        elif a in ("close", "exit_ok", "exit_exc"):
            if closed:
                continue
            try:
                if a == "close":
                    dev.close()
                elif a == "exit_ok":
                    with dev:
                        pass
                else:
                    try:
                        with dev:
                            raise Boom()
                    except Boom:
                        pass
                out = "ok"
            except Exception:
                out = "error"
            closed = True
            armed = False
            ev.append({"a": a, "obs": w.obs(out, n0)})
            continue
        ev.append({"a": a, "obs": {"out": "ok", "sent": "none", "live": 0, "hopen": True, "hmode": "rw" if rw else "ro"}})
    return ev


def iscsi_sessions(w_fi):
    idev = mod("pyscsi.pyiscsi.iscsi_device")
    out = []
    for how in ("close", "exit_ok", "exit_exc"):
        w_fi.reset(None)
        d = idev.ISCSIDevice("iscsi://10.0.0.1:3260/iqn.t/1", "iqn.i")
        try:
            if how == "close":
                d.close()
            elif how == "exit_ok":
                with d:
                    pass
            else:
                try:
                    with d:
                        raise Boom()
                except Boom:
                    pass
        except Exception:
            pass
        out.append({"a": "iscsi", "how": how,
                    "connects": sum(1 for x in w_fi.LOG if x[0] == "connect"),
                    "disconnects": sum(1 for x in w_fi.LOG if x[0] == "disconnect")})
    return out


ALPHA = ("exec", "replug", "unplug", "plug", "arm", "armopen", "close", "exit_ok", "exit_exc")


def run(chk, replay=None):
    ev = chk.ev
    ev.assumptions += [
        "replug detection is by inode number: the harness replaces the node by create-then-rename (new inode)",
        "close failure is injected on a wrapper around the real file object handed out by open(), which the "
        "device module calls by its builtin name; the descriptor is released before the error is raised (EIO on close)",
        "environment actions happen between library calls, not inside one execute()",
    ]
    if replay is not None:
        chk.only(replay, keys=("clause", "acts", "detect", "rw"))
    r = tlc.run("Handle", "MC_Handle.cfg", workers=4, coverage=True, name="c15mc")
    if not r.ok:
        raise tlc.TLCFailure("Handle.tla violated %s\n%s" % (r.violated, r.counterexample[:2000]))
    ev.tlc("Handle/MC_Handle.cfg", r)
    w = World()
    try:
        depth = 4 if chk.quick else 6
        hist = []
        short = ("exec", "replug", "unplug", "plug", "arm", "armopen", "close")
        for detect in (True, False):
            for rw in (False, True):
                for n in range(1, depth + 1):
                    for acts in itertools.product(short, repeat=n):
                        if acts[0] in ("plug", "close") or "exec" not in acts and "close" not in acts:
                            continue
                        hist.append((detect, rw, acts))
                for tail in ("exit_ok", "exit_exc"):
                    for acts in itertools.product(("exec", "replug", "arm", "unplug", "armopen"), repeat=3):
                        hist.append((detect, rw, acts + (tail,)))
        rng = random.Random(chk.seed)
        for _ in range(200 if chk.quick else 10000):
            hist.append((rng.random() < 0.7, rng.random() < 0.5,
                         tuple(rng.choice(ALPHA[:6]) for _ in range(rng.randint(5, 40))) + (rng.choice(ALPHA[6:]),)))
        events = []
        index = []           # event index -> history
        for hi, h in enumerate(hist):
            e = run_history(w, *h, how=("explicit", "default", "init_device")[hi % 3])
            index += [h] * len(e)
            events += e
            ev.case(h)
        fi = __import__("harness.fakes.iscsi", fromlist=["x"])
        isc = iscsi_sessions(fi)
        index += [("iscsi",)] * len(isc)
        events += isc
    finally:
        w.cleanup()
    # one shard per ~3000 events, cut at reset boundaries
    shards, cur, base = [], [], 0
    for i, e in enumerate(events):
        if e["a"] == "reset" and len(cur) > 3000:
            shards.append((base, cur))
            base, cur = i, []
        cur.append(e)
    shards.append((base, cur))
    seen = set()
    nst = {"states": 0, "transitions": 0, "shards": 0, "wall": 0.0}
    import concurrent.futures as cf

    def judge(sh):
        return sh[0], tlc.judge_traces("Trace_Handle", "Trace_Handle.cfg", sh[1], shard=10 ** 9, procs=1, name="c15tr")
    with cf.ThreadPoolExecutor(max_workers=16) as ex:
        for b, (vs, st) in ex.map(judge, shards):
            for k in nst:
                nst[k] += st[k]
            for i, clause, detail in vs:
                gi = b + i
                if (gi, clause) in seen:
                    continue
                seen.add((gi, clause))
                h = index[gi]
                chk.violation({"clause": clause, "cls": "", "field": "", "acts": list(h[2]) if len(h) > 2 else list(h),
                               "detect": h[0] if len(h) > 2 else None, "rw": h[1] if len(h) > 2 else None,
                               "detail": {"event": events[gi], "spec": detail}, "what": "Handle history"},
                              dedup=(clause, str(events[gi]), h[0] if len(h) > 2 else None))
    ev.judged("Trace_Handle", nst, len(events))
    ev.sample({"history": {"detect": hist[50][0], "rw": hist[50][1], "acts": list(hist[50][2])}})
    ev.sample({"events": events[:6]})
    ev.cov["rule"] = ("every sequence over {exec, replug, unplug, plug, arm-close-failure, close} up to length %d, plus "
                      "with-block exits (normal / by exception) after every 3-action prefix, for detection on/off and "
                      "read-only/read-write, plus seeded random histories of 5-40 actions, each run on a real SCSIDevice "
                      "over tmpfs nodes and the stand-in sgio; every step validated by Trace_Handle against Handle.tla. "
                      "distinct by (detect, rw, action sequence)." % depth)


if __name__ == "__main__":
    main("C15", run)
