"""C01 - every CDB the library builds has the standard's wire format."""
import random

from ..core import cmds
from ..core.runner import main
from ..core.values import num
from . import cdb_common as cc

ASSUME = [
    "T10Cdb.tla/T10Opcodes.tla are a transcription of SPC-4/SBC-3/SMC-3/MMC-6/SAT-3 from memory; TLC checks the "
    "transcription's own laws (disjoint fields inside the CDB, group length, target-recovers, other bits zero) on "
    "every exported case",
    "arguments coupled to an allocation go through the constructor only while the buffer stays <= 16 MiB; their high "
    "bits are exercised through Cls.marshall_cdb",
    "parameter-list commands (MODE SELECT, PR OUT, EXTENDED COPY) are constructed by the C05 driver; here their CDB "
    "fields are exercised at dictionary level",
]


def coupled_random(rng, W, name):
    """random in-range arguments that keep allocations small"""
    d = W[name]
    a = cc.rand_args(rng, W, name)
    ph = d["ph"]
    for k in d.get("coupled", []):
        if k in a:
            a[k] = rng.choice([0, 1, 2, 3, 255, 256, rng.randint(0, min(d["max"][k], 4096))])
    if ph in ("in_blocks", "out_data", "out_block"):
        a["blocksize"] = rng.choice([1, 2, 512, 4096]) if a.get("tl", a.get("nb", 0)) <= 4096 else 1
        if ph == "out_data":
            a["tl"] = rng.randint(0, 8)
    if ph == "ata":
        a["blocksize"] = rng.choice([0, 1, 512, 4096])
        a["extra_tl"] = rng.choice([0, 1, 7])
        if a.get("t_length") and a.get("byte_block") and a.get("t_type") and not a["blocksize"]:
            a["blocksize"] = 512
        a["fetures"] = rng.choice([0, 1, 2, a["fetures"] & 0xFF00])  # keep the transfer small
        a["count"] = rng.choice([0, 1, 3, a["count"] & 0xFF00])
        if a["t_length"] == 1 and a["fetures"] > 8:
            a["t_length"] = 0
        if a["t_length"] == 2 and a["count"] > 8:
            a["t_length"] = 0
        if a["t_length"] == 3 and rng.random() < 0.5:
            # length carried in the TPSIU and stated by the data handed over
            del a["extra_tl"]
            a["#datalen"] = rng.choice([0, 1, 16, 512])
    if ph == "readcd":
        a["tl"] = rng.randint(0, 4)
    return a


def record_random(chk, cases, n_per_class):
    W = cc.widths(cases)
    for c in cases:
        W[c["cls"]]["coupled"] = c.get("coupled", [])
    rng = random.Random(chk.seed)
    events = []
    order = [name for name in sorted(W) if W[name]["ph"] != "out_list"] * n_per_class
    rng.shuffle(order)          # classes interleaved: a command must not depend on what was built before it
    for name in order:
        ph = W[name]["ph"]
        for _ in range(1):
            a = coupled_random(rng, W, name)
            for s in W[name]["sets"]:
                if cmds.opcode(name, s) is None:
                    continue
                cmd, exc, passed = cmds.construct(name, s, a, ph)
                events.append(cmds.event(name, s, a, ph, cmd, exc, passed))
                chk.ev.case((name, s, str(sorted(a.items()))))
    return events


def handoff(chk, cases):
    """The property speaks of the CDB *handed to the transport*: a sample of the spec cases of every
    class is executed on both transports over the stand-in bindings and the bytes the binding received
    are compared with the specification's CDB.  Each is preceded by a construction of the same class
    that fails half way (one argument None), which must leave nothing behind."""
    import os
    from ..core import bindings
    from ..core.lib import mod
    fs, fi = bindings.install(True, True)
    d = bindings.shm_dir("c01")
    path = os.path.join(d, "sg0")
    open(path, "wb").close()
    devs = {"sgio": mod("pyscsi.pyscsi.scsi_device").SCSIDevice(path, readwrite=True),
            "iscsi": mod("pyscsi.pyiscsi.iscsi_device").ISCSIDevice("iscsi://127.0.0.1:3260/iqn.t/0", "iqn.i")}
    seen, n = {}, 0
    try:
        for c in cases:
            if not c["ctor"] or c["refuse"] or c["dinlen"] > 70000 or c["doutlen"] > 70000:
                continue
            name = c["cls"]
            seen[name] = seen.get(name, 0) + 1
            if seen[name] > 4 and seen[name] % (40 if chk.quick else 5):
                continue
            a = cmds.int_args(c["a"])
            for s in sorted(c["sets"]):
                if cmds.opcode(name, s) is None:
                    continue
                for k in [x for x in sorted(a) if x not in ("blocksize", "tl", "nb", "ndob", "#datalen")][-1:]:
                    try:
                        cmds.construct(name, s, dict(a, **{k: None}), c["ph"])   # fails (or not): result unused
                    except Exception:
                        pass
                cmd, exc, passed = cmds.construct(name, s, a, c["ph"])
                if cmd is None:
                    continue
                for tr in ("sgio", "iscsi"):
                    fs.reset(None)
                    fi.reset(None)
                    try:
                        if tr == "iscsi":
                            # the caller re-aims the command it already sent once (same field values) and sends it again
                            d_ = cc._full_dict(c)
                            d_["opcode"] = int(cmd.opcode.value)
                            cmd.cdb = cmd.build_cdb(**d_)
                        devs[tr].execute(cmd)
                        got = fs.CALLS[-1]["cdb"] if tr == "sgio" else [x[1] for x in fi.LOG if x[0] == "command"][-1]["cdb"]
                        got = list(got)
                    except Exception as ex:
                        got = "raised " + type(ex).__name__
                    n += 1
                    if got != c["cdb"]:
                        cl = "CdbLength" if isinstance(got, str) or len(got) != len(c["cdb"]) else "WireFormat"
                        chk.violation({"clause": cl, "cls": name, "set": s, "args": a, "field": "handed to " + tr,
                                       "detail": {"expected": c["cdb"], "handed_to_binding": got},
                                       "what": "CDB the %s binding received" % tr},
                                      dedup=(cl, name, s, tr, "handoff"))
                chk.ev.case(("handoff", name, s, str(sorted(a.items()))))
    finally:
        for dv in devs.values():
            try:
                dv.close()
            except Exception:
                pass
        try:
            os.unlink(path)
            os.rmdir(d)
        except OSError:
            pass
    chk.ev.cov["handed_to_bindings"] = n


def run(chk, replay=None):
    chk.ev.assumptions += ASSUME
    if replay is not None:
        chk.only(replay)
    want = cc.CLAUSES["C01"]
    cases = cc.spec_cases(chk, "c01mc")
    ev1 = cc.replay(chk, cases, want)
    chk.ev.sample({"spec_case": {k: cases[len(cases) // 3][k] for k in ("cls", "a", "cdb", "ctor")}})
    handoff(chk, cases)
    events = record_random(chk, cases, 40 if chk.quick else 4000)
    events = ev1 + events
    cc.judge(chk, events, want, "c01tr")
    chk.ev.sample({"event": events[len(events) // 2]})
    chk.ev.cov["rule"] = ("spec cases: for each of the 42 classes, star (3 backgrounds x every field x {0, max, single "
                          "bits, max minus single bits}) + all flag combinations + ATA modes, each through the real "
                          "constructor on every command set that offers the class (or through marshall_cdb when the "
                          "coupled buffer would exceed 16 MiB); random in-range argument tuples recorded and judged by "
                          "Trace_Command; a sample of the spec cases of every class executed on both transports and the bytes the "
                          "binding received compared with the specification's CDB. distinct by (class, set, arguments); non-trivial = some argument non-zero.")


if __name__ == "__main__":
    main("C01", run)
