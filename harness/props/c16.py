"""C16 - attaching to a device selects the command set of its peripheral device type."""
import itertools
import os
import random

from ..core import bindings, tlc
from ..core.lib import mod
from ..core.runner import main


class World(object):
    def __init__(self):
        self.fs, self.fi = bindings.install(True, True)
        self.dir = bindings.shm_dir("c16")
        self.byte0 = {}
        self.seen = []
        self.n = 0

    fault = 0
    SENSE = bytes([0x70, 0, 6, 0, 0, 0, 0, 10, 0, 0, 0, 0, 0x29, 0, 0, 0, 0, 0])

    def target(self, cdb, dataout, datain, via=None):
        self.seen.append(list(cdb))
        # the answer is the one of the device the command ARRIVED at (the node / the iSCSI target it came through),
        # not of the device the harness meant
        if via == "sgio":
            self.cur_byte0 = self.byte0.get(("ino", self.fs.CALLS[-1]["ino"]), 0x7F)
        elif via == "iscsi":
            self.cur_byte0 = self.byte0.get(("iqn", self.fi.LOG[-1][1].get("target")), 0x7F)
        if self.fault:
            st, self.fault = self.fault, 0
            return (2, self.SENSE) if st == 2 else (st, None)
        if cdb[0] == 0x12 and len(datain) >= 5:
            datain[0] = self.cur_byte0
            datain[2] = 6
            datain[4] = 91
        return 0, None

    def device(self, tr, type_, qual):
        self.n += 1
        if tr == "sgio":
            p = os.path.join(self.dir, "sg%d" % self.n)
            open(p, "wb").close()
            d = mod("pyscsi.pyscsi.scsi_device").SCSIDevice(p)
            self.byte0[("ino", os.stat(p).st_ino)] = (qual << 5) | type_
        else:
            d = mod("pyscsi.pyiscsi.iscsi_device").ISCSIDevice("iscsi://h/iqn.t%d/0" % self.n, "iqn.i")
            self.byte0[("iqn", "iqn.t%d" % self.n)] = (qual << 5) | type_
        d._verif_byte0 = (qual << 5) | type_
        return d

    def cleanup(self):
        for f in os.listdir(self.dir):
            os.unlink(os.path.join(self.dir, f))
        os.rmdir(self.dir)


def set_name(ec, table):
    for n in ("spc", "sbc", "ssc", "smc", "mmc"):
        if table is getattr(ec, n):
            return n
    return "other"


def primary_ok(table):
    try:
        return (table.INQUIRY.value == 0x12 and table.TEST_UNIT_READY.value == 0x00 and table.REPORT_LUNS.value == 0xA0)
    except Exception:
        return False


def run(chk, replay=None):
    ev = chk.ev
    ev.assumptions += [
        "the library also maps types 02h and 09h to SSC; the property only demands the primary commands for them",
        "for types the property does not name, the selection must not depend on what the facade was attached to before",
    ]
    if replay is not None:
        chk.only(replay, keys=("clause", "type", "tr"))
    r = tlc.run("Attach", "MC_Attach.cfg", workers=8, coverage=True, name="c16mc")
    if not r.ok:
        raise tlc.TLCFailure("Attach.tla violated %s\n%s" % (r.violated, r.counterexample[:1500]))
    ev.tlc("Attach/MC_Attach.cfg", r)
    ec = mod("pyscsi.pyscsi.scsi_enum_command")
    SCSI = mod("pyscsi.pyscsi.scsi").SCSI
    w = World()
    w.fs.reset(lambda c, o, i: w.target(c, o, i, "sgio"))
    w.fi.reset(lambda c, o, i: w.target(c, o, i, "iscsi"))
    events, meta = [], []
    rng = random.Random(chk.seed)

    def attach(facade, d, devs, tr, fresh, fault=0):
        w.cur_byte0 = d._verif_byte0
        del w.seen[:]
        w.fault = fault
        exc = ""
        try:
            if facade[0] is None:
                facade[0] = SCSI(d)
            else:
                facade[0](d)
        except Exception as ex:
            exc = type(ex).__name__
        t = d._verif_byte0 & 0x1F
        w.fault = 0
        e = {"ev": "attach", "fault": fault, "dev": "d%d" % id(d), "type": t, "qual": d._verif_byte0 >> 5, "tr": tr, "fresh": fresh,
             "cdbs": [c for c in w.seen], "set": set_name(ec, d.opcodes), "primary": primary_ok(d.opcodes),
             "devtype": getattr(d, "_devicetype", -1) if exc == "" else -1, "exc": exc,
             "others": {"d%d" % id(o): set_name(ec, o.opcodes) for o in devs if o is not d}}
        events.append(e)
        meta.append((t, tr))
        ev.case((t, d._verif_byte0 >> 5, tr, fresh, tuple(sorted(e["others"].values()))))
        if exc or e["set"] == "other":
            return
        # the commands the facade finds by operation code: what is sent now depends on this device's set only
        for code, call in (("9E", lambda f: f.readcapacity16()), ("A3", lambda f: f.reporttargetportgroups())):
            del w.seen[:]
            pexc = ""
            try:
                call(facade[0])
            except BaseException as ex:         # StopIteration included: "not offered" surfaces in many ways
                pexc = type(ex).__name__
            events.append({"ev": "probe", "set": e["set"], "code": code, "sent": [c[0] for c in w.seen], "exc": pexc,
                           "type": t, "tr": tr})
            meta.append((t, tr))

    try:
        # every type x qualifier on a fresh facade, both transports
        for tr in ("sgio", "iscsi"):
            for t in range(32):
                for q in range(8):
                    events.append({"ev": "reset"})
                    meta.append((None, tr))
                    d = w.device(tr, t, q)
                    attach([None], d, [d], tr, True)
        # sequences of attach / re-attach over devices of differing types
        types = [0, 1, 3, 4, 5, 7, 8, 2, 9, 0x0C, 0x0D, 0x0E, 0x11, 0x1E, 0x1F]
        seqs = list(itertools.product(types, repeat=2)) + [tuple(rng.choice(types) for _ in range(3)) for _ in range(60 if chk.quick else 100000)]
        for k, seq in enumerate(seqs):
            tr = ("sgio", "iscsi")[k % 2]
            events.append({"ev": "reset"})
            meta.append((None, tr))
            devs = [w.device(tr, t, rng.randrange(8) if k % 3 == 0 else 0) for t in seq]
            facade = [None]
            for i, d in enumerate(devs):
                if i and k % 4 in (1, 2):
                    # the INQUIRY of a re-attach fails (UNIT ATTENTION / BUSY, on either transport): nothing is
                    # selected, then the retry works
                    attach(facade, d, devs, tr, False, fault=(2, 8, 0xFF, 0x22)[(k // 4) % 4])
                attach(facade, d, devs, tr, i == 0)
            # and back to the first one - whose INQUIRY fails first in every second sequence: a device that HAD a set
            # selected keeps it through a failed re-attach
            if k % 2:
                attach(facade, devs[0], devs, tr, False, fault=(2, 8, 0xFF, 0x22)[(k // 2) % 4])
            attach(facade, devs[0], devs, tr, False)
    finally:
        w.cleanup()
    # the judge is stateful between two "reset" events (and remembers what an unnamed type selected first): shards
    # start at resets, each shard learns its own first selections
    vs, st = tlc.judge_traces("Trace_Attach", "Trace_Attach.cfg", events, shard=max(4000, len(events) // 16), procs=16,
                              timeout=3000, name="c16tr", boundary=lambda e: e.get("ev") == "reset")
    ev.judged("Trace_Attach", st, len(events))
    for i, clause, detail in vs:
        e = events[i]
        chk.violation({"clause": clause, "cls": "", "field": "", "type": e["type"], "tr": e["tr"],
                       "detail": {"expected": detail, "event": e}, "what": "attach"},
                      dedup=(clause, e["type"], e["tr"]))
    ev.sample({"event": events[1]})
    ev.cov["rule"] = ("all 32 device types x 8 qualifiers on a fresh facade over both transports (real SCSIDevice / "
                      "ISCSIDevice on the stand-in bindings, scripted INQUIRY data); all ordered pairs of 15 representative "
                      "types and random triples as attach / re-attach sequences (plus return to the first device); every "
                      "attach judged by Trace_Attach. distinct by (type, qualifier, transport, fresh, other devices' sets).")


if __name__ == "__main__":
    main("C16", run)
