"""Thread schedules in pristine processes (C09): the parent imports the library but never uses
it; every schedule runs in a forked child, so first-use effects (lazily filled caches, memo
tables) are part of what the interleaving can break.  argv: class A, class B, JSON of
[argsA, phA, setA, argsB, phB, setB]; stdin: JSON list of schedules.  stdout: JSON."""
import json
import os
import sys

sys.path.insert(0, os.path.dirname(os.path.dirname(os.path.dirname(os.path.abspath(__file__)))))
from harness.core import cmds            # noqa: E402
from harness.core.lib import use_repo    # noqa: E402
from harness.core.sched import Runner    # noqa: E402

use_repo()
import pyscsi.pyscsi.scsi                # noqa: E402,F401  (import everything, use nothing)

a, b = sys.argv[1], sys.argv[2]
cfg = json.loads(sys.argv[3])


def program(name, args, ph, setname):
    def p():
        cmd, exc, _ = cmds.construct(name, setname, args, ph)
        if cmd is None:
            return ["raised", exc]
        K = cmds.klass(name)
        dec = {k: int(v) for k, v in K.unmarshall_cdb(cmd.cdb).items() if isinstance(v, int)}
        enc = bytes(K.marshall_cdb(dict(dec)))
        enc2 = bytes(K.marshall_cdb({k: v for k, v in dec.items() if k != "opcode"}))
        return [list(cmd.cdb), len(cmd.datain), len(cmd.dataout), sorted(dec.items()), list(enc), list(enc2)]
    return p


def in_child(fn):
    r, w = os.pipe()
    pid = os.fork()
    if pid == 0:
        try:
            os.close(r)
            out = json.dumps(fn())
            os.write(w, out.encode())
        finally:
            os._exit(0)
    os.close(w)
    chunks = []
    while True:
        c = os.read(r, 65536)
        if not c:
            break
        chunks.append(c)
    os.close(r)
    os.waitpid(pid, 0)
    return json.loads(b"".join(chunks).decode() or "null")


mode = sys.argv[4]
if mode == "firstuse":
    # cfg: list of [name, args, phase, set, reference cdb, decoded fields]; each class in its own pristine
    # child: what the class encodes / decodes BEFORE any instance of it exists and AFTER one was created
    out = []
    for name, args, ph, setname, refcdb, dec in cfg:
        def probe(name=name, args=args, ph=ph, setname=setname, refcdb=refcdb, dec=dec):
            K = cmds.klass(name)

            def look():
                r = []
                for d in (dict(dec), {k: v for k, v in dec.items() if k != "opcode"}):
                    try:
                        r.append(list(K.marshall_cdb(d)))
                    except Exception as ex:
                        r.append("raised " + type(ex).__name__)
                try:
                    r.append(sorted((k, int(v)) for k, v in K.unmarshall_cdb(bytearray(refcdb)).items() if isinstance(v, int)))
                except Exception as ex:
                    r.append("raised " + type(ex).__name__)
                return r
            before = look()
            cmd, exc, _ = cmds.construct(name, setname, args, ph) if ph != "out_list" else (cmds.benign(name), "", None)
            after = look()
            return [before, after, exc]
        out.append(in_child(probe))
    print(json.dumps(out))
    sys.exit(0)
progs = [program(a, cfg[0], cfg[1], cfg[2]), program(b, cfg[3], cfg[4], cfg[5])]
if mode == "measure":
    def m():
        r = Runner(progs)
        return [r.measure(0), r.measure(1)]
    print(json.dumps(in_child(m)))
else:
    scheds = json.loads(sys.stdin.read())
    iso = in_child(lambda: [Runner(progs).measure(0)[1], Runner(progs).measure(1)[1]])
    # the isolated results come from one child where A ran first and from one where B ran first
    iso2 = in_child(lambda: list(reversed([Runner(progs).measure(1)[1], Runner(progs).measure(0)[1]])))
    out = []
    for sg in scheds:
        res = in_child(lambda: Runner(progs).run(sg))
        out.append(res)
    print(json.dumps({"iso": iso, "iso2": iso2, "results": out}))
