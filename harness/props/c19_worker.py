"""One interpreter per binding configuration (the library fixes _has_sgio/_has_iscsi at
import time).  argv: <sgio 0|1> <iscsi 0|1>.  Prints one JSON list of events."""
import importlib
import json
import os
import pkgutil
import socket
import sys

REPO = os.environ.get("VERIF_REPO", "/repo")
sys.path.insert(0, REPO)
sys.path.insert(0, os.path.dirname(os.path.dirname(os.path.dirname(os.path.abspath(__file__)))))

has_sgio, has_iscsi = sys.argv[1] == "1", sys.argv[2] == "1"
cfg = {"sgio": has_sgio, "iscsi": has_iscsi}


class Blocker(object):
    """absent binding: importing it raises ImportError whatever is installed"""

    def find_spec(self, name, path=None, target=None):
        if (name == "sgio" and not has_sgio) or (name == "iscsi" and not has_iscsi):
            raise ImportError("No module named %r (blocked by the harness)" % name)
        return None


sys.meta_path.insert(0, Blocker())
from harness.fakes import iscsi as fi   # noqa: E402
from harness.fakes import sgio as fs    # noqa: E402
if has_sgio:
    sys.modules["sgio"] = fs
if has_iscsi:
    sys.modules["iscsi"] = fi

events = []


def B(s):
    return list(s.encode("utf-8"))


# 1. every module of the package imports
import pyscsi  # noqa: E402
names = ["pyscsi"]
for m in pkgutil.walk_packages(pyscsi.__path__, "pyscsi."):
    names.append(m.name)
for n in names:
    try:
        importlib.import_module(n)
        ok = True
    except Exception as ex:
        ok = False
    events.append({"ev": "import", "cfg": cfg, "module": n, "ok": ok})

# 2. the codec and the facade work without any binding
def codec(what, fn):
    try:
        ok = bool(fn())
    except Exception:
        ok = False
    events.append({"ev": "codec", "cfg": cfg, "what": what, "ok": ok})


def _read16():
    from pyscsi.pyscsi.scsi_cdb_read16 import Read16
    from pyscsi.pyscsi.scsi_enum_command import sbc
    c = Read16(sbc.READ_16, 512, 2 ** 40 + 5, 2)
    d = Read16.unmarshall_cdb(c.cdb)
    return len(c.cdb) == 16 and d["lba"] == 2 ** 40 + 5 and len(c.datain) == 1024 and Read16.marshall_cdb(d) == c.cdb


def _inquiry():
    from pyscsi.pyscsi.scsi_cdb_inquiry import Inquiry
    r = Inquiry.unmarshall_datain(bytearray([5, 0x80, 6, 2, 31] + [0] * 91))
    return r["peripheral_device_type"] == 5 and r["rmb"] == 1


def _facade():
    from harness.core.devices import RecDevice
    from pyscsi.pyscsi.scsi import SCSI
    from pyscsi.pyscsi.scsi_enum_command import spc
    dev = RecDevice(spc)
    s = SCSI(dev, 512)
    r = s.read10(7, 1)
    ok = len(dev.calls) == 2 and dev.calls[1]["cdb"][0] == 0x28 and len(r.datain) == 512
    # ... and over the next device object it is handed: that one is asked (one INQUIRY) and gets the commands
    # from then on, the first one hears nothing more
    dev2 = RecDevice(spc)
    s(dev2)
    s.read10(9, 1)
    return ok and len(dev.calls) == 2 and [c["cdb"][0] for c in dev2.calls] == [0x12, 0x28] and s.device is dev2


def _sense():
    from pyscsi.pyscsi.scsi_sense import SCSICheckCondition
    e = SCSICheckCondition(bytes([0x70, 0, 5, 0, 0, 0, 0, 10, 0, 0, 0, 0, 0x24, 0, 0, 0, 0, 0]))
    return e.asc == 0x24 and "Illegal Request" in str(e)


codec("Read16 build/encode/decode", _read16)
codec("Inquiry decode", _inquiry)
codec("facade over a duck-typed device", _facade)
codec("sense decode", _sense)

# 3. init_device
from pyscsi.utils import init_device  # noqa: E402
import pyscsi.pyscsi.scsi_device as sd  # noqa: E402

opens = []
_real_open = open


def tracking_open(path, mode="r", buffering=-1, *a, **k):
    opens.append([B(str(path)), mode])
    return _real_open("/dev/null", "rb")


sd.open = tracking_open
touched = []
_real_stat, _real_lstat, _real_os_open = os.stat, os.lstat, os.open


def _touch(kind, real):
    def f(path, *a, **k):
        touched.append([kind, str(path)])
        return real(path, *a, **k)
    return f


def route(via, dev, rw, ini):
    if via == "init_device":
        kw = {} if ini is None else {"initiator_name": ini}
        return init_device(dev, read_write=rw, **kw)
    if via == "SCSIDevice":
        from pyscsi.pyscsi.scsi_device import SCSIDevice
        return SCSIDevice(dev, rw)
    from pyscsi.pyiscsi.iscsi_device import ISCSIDevice
    if ini is None:
        return ISCSIDevice(dev)          # the class's own default: the context is then named after the URL
    return ISCSIDevice(dev, ini)


default_ini = "iqn.2018-01.org.pyscsi:%s" % socket.gethostname()
DEVS = ["/dev/null", "/dev/zero", "/dev/", "/dev", "iscsi://h:3260/iqn.t/0", "iscsi://u%p@10.0.0.1/iqn.t/1",
        "iscsi:/", "", "dev/null", "file:///dev/null", "/devnull", "/dev-snap/x", "ISCSI://h/t/0", "/DEV/null",
        "iscsi//h/t/0", " /dev/null", "iscsi:h/t/0", "iscsi:", "x://[1.2.3.4/y", "iser://h/t/0",
        "/nonexistent-verif/sg0", "nonexistent-verif", "\\dev\\sg0"]
# a node that does not exist: only where the request must be refused anyway (nothing may be looked at)
MISSING = "/dev/nonexistent-verif-node"
for via, dev in [(v, d) for v in ("init_device", "SCSIDevice", "ISCSIDevice") for d in DEVS + [MISSING]]:
    if dev == MISSING and has_sgio and via != "ISCSIDevice":
        continue
    for rw in (False, True):
        for ini in (None, "iqn.2005-03.org.example:initiator-7"):
            del opens[:]
            del touched[:]
            fs.reset(None)
            fi.reset(None)
            exc, klass = "", ""
            os.stat, os.lstat, os.open = _touch("stat", _real_stat), _touch("lstat", _real_lstat), _touch("os.open", _real_os_open)
            try:
                d = route(via, dev, rw, ini)
                klass = type(d).__name__
            except Exception as ex:
                exc = type(ex).__name__
            finally:
                os.stat, os.lstat, os.open = _real_stat, _real_lstat, _real_os_open
            first_opens = [list(o) for o in opens]
            reopens = []
            if klass == "SCSIDevice":
                # the caller closes the device and opens it again: the same node, with the access asked for at first
                del opens[:]
                try:
                    d.close()
                    d.open()
                except Exception as ex:
                    opens.append([B("raised " + type(ex).__name__), "?"])
                reopens = [list(o) for o in opens]
                del opens[:]
                opens.extend(first_opens)
            urls = [x[1] for x in fi.LOG if x[0] == "URL"]
            ctxs = [x[1] for x in fi.LOG if x[0] == "Context"]
            events.append({"ev": "init", "via": via, "touched": len(touched) + len(opens), "cfg": cfg, "dev": B(dev), "rw": rw,
                           "ini": B(ini if ini is not None else (dev if via == "ISCSIDevice" else default_ini)),
                           "default_ini": ini is None, "class": klass, "exc": exc, "opens": [list(o) for o in opens], "reopens": reopens,
                           "connects": sum(1 for x in fi.LOG if x[0] == "connect"),
                           "url": B(urls[0]) if len(urls) == 1 else (B("#".join(urls)) if urls else []),
                           "ctx": B(ctxs[0]) if len(ctxs) == 1 else (B("#".join(ctxs)) if ctxs else [])})
print("EVENTS " + json.dumps(events))
