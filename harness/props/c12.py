"""C12 - data written through the library is read back intact from a conformant target."""
import os
import random
import struct

from ..core import bindings, cmds, tlc
from ..core.lib import mod
from ..core.runner import main
from ..core.values import flatten, num


class LiveTarget(object):
    """environment only: a small block target in Python.  Its answers are part of the recorded
    trace and TLC's own target (TargetRules.tla) re-derives them from the received CDBs - a bug
    here shows up as HarnessTargetNotConformant (machinery failure), not as a library violation."""

    def __init__(self, bs, cap):
        self.bs, self.cap = bs, cap
        self.disk = {}
        self.last = None
        self.ident = b"VERIFTGT"

    def virgin(self, lba):
        bs_ = []
        v = lba
        while v:
            bs_.append(v & 0xFF)
            v >>= 8
        bs_.reverse()
        s = 0
        for i, b in enumerate(bs_):
            s = (s + b * (i + 1)) % 251      # same rule as TargetRules!Virgin (SumW)
        return bytes((self._sumw(bs_) + 7 * j) % 256 for j in range(1, self.bs + 1))

    @staticmethod
    def _sumw(v):
        # SumW(v, i) == (v[1]*i + SumW(Tail(v), i+1)) % 251, evaluated from the tail
        r = 0
        for i in range(len(v), 0, -1):
            r = (v[i - 1] * i + r) % 251
        return r

    def __call__(self, cdb, dataout, datain):
        op = cdb[0]
        rec = {"cdb": list(cdb), "dout": list(bytes(dataout)), "din_target": []}
        self.last = rec
        rd = {0x28: (">I", 2, ">H", 7), 0xA8: (">I", 2, ">I", 6), 0x88: (">Q", 2, ">I", 10)}
        wr = {0x2A: (">I", 2, ">H", 7), 0xAA: (">I", 2, ">I", 6), 0x8A: (">Q", 2, ">I", 10)}
        ws = {0x41: (">I", 2, ">H", 7), 0x93: (">Q", 2, ">I", 10)}
        if op in rd or op in wr or op in ws:
            f = (rd.get(op) or wr.get(op) or ws.get(op))
            lba = struct.unpack_from(f[0], cdb, f[1])[0]
            n = struct.unpack_from(f[2], cdb, f[3])[0]
            if op in rd:
                out = b"".join(self.disk.get(lba + i, self.virgin(lba + i)) for i in range(n))
                datain[:len(out)] = out[:len(datain)]
                rec["din_target"] = list(out)
            elif op in wr:
                for i in range(n):
                    # (a buffer shorter than announced is written as far as it goes, the rest reads as zero: Trace_Target!Wr)
                    self.disk[lba + i] = bytes(dataout[i * self.bs:(i + 1) * self.bs]).ljust(self.bs, b"\0")
            else:
                blk = bytes(self.bs) if (op == 0x93 and cdb[1] & 1) else bytes(dataout[:self.bs]).ljust(self.bs, b"\0")
                if n == 0 and self.cap < 16:
                    n = self.cap + 1 - lba        # NUMBER OF LOGICAL BLOCKS 0: to the end of the medium (small media only)
                for i in range(n):
                    self.disk[lba + i] = blk
        elif op == 0x25:
            datain[:8] = struct.pack(">II", min(self.cap, 0xFFFFFFFF), self.bs)[:len(datain)]
        elif op == 0x9E and (cdb[1] & 0x1F) == 0x10:
            d = struct.pack(">QI", self.cap, self.bs) + bytes(20)
            datain[:len(d)] = d[:len(datain)]
        elif op == 0x12:
            d = bytearray(96)
            d[0], d[2], d[4] = 0, 6, 91
            d[8:16] = self.ident
            datain[:len(d)] = d[:len(datain)]
        return 0, None


METHODS = {
    "read10": ("Read10", 32), "read12": ("Read12", 32), "read16": ("Read16", 64),
    "write10": ("Write10", 32), "write12": ("Write12", 32), "write16": ("Write16", 64),
    "writesame10": ("WriteSame10", 32), "writesame16": ("WriteSame16", 64),
    "synchronizecache10": ("SynchronizeCache10", 32), "synchronizecache16": ("SynchronizeCache16", 64),
    "readcapacity10": ("ReadCapacity10", 0), "readcapacity16": ("ReadCapacity16", 0), "inquiry": ("Inquiry", 0),
}
CLUSTERS = [0, 1, 2, 3, 2 ** 32 - 2, 2 ** 32 - 1, 2 ** 32, 2 ** 32 + 1, 2 ** 40 + 5, 2 ** 64 - 4, 2 ** 64 - 3, 2 ** 64 - 2, 2 ** 64 - 1]


def history(rng, facade, tgt, tr, bs, n_ops):
    ev = [{"ev": "reset", "bs": bs, "cap": num(tgt.cap)}]
    kept = {}      # the caller's long-lived READ CAPACITY / INQUIRY command objects
    for _ in range(n_ops):
        if rng.random() < 0.08:
            # the target changes its geometry / identity; the caller re-issues the command object it kept
            # (facade.execute(cmd); cmd.unmarshall()) and must see the new answer
            m = rng.choice(["readcapacity10", "readcapacity16", "inquiry"])
            if m == "inquiry":
                tgt.ident = bytes(rng.choice(b"ABCDEFGH") for _ in range(8))
            else:
                tgt.cap = max(1, tgt.cap + rng.choice([-1, 1, 2 ** 32, 5]))
                ev.append({"ev": "resize", "cap": num(tgt.cap)})
            cls = METHODS[m][0]
            exc = ""
            try:
                tgt.last = None
                if m not in kept:
                    kept[m] = getattr(facade, m)()
                else:
                    facade.execute(kept[m])
                    kept[m].unmarshall()
                cmd = kept[m]
            except Exception as ex:
                cmd, exc = None, type(ex).__name__
            rec = tgt.last or {"cdb": [], "dout": [], "din_target": []}
            res = {}
            if cmd is not None and isinstance(cmd.result, dict) and cmd.result:
                res = flatten({k: v for k, v in cmd.result.items() if k in ("returned_lba", "block_length", "t10_vendor_identification")})
            ev.append({"ev": "io", "method": m, "cls": cls, "tr": tr, "a": {}, "data": [], "cdb": rec["cdb"], "dout": rec["dout"],
                       "din_target": rec["din_target"], "din_seen": list(cmd.datain) if cmd is not None else [], "exc": exc,
                       "res": res or {"#none": []}, "ident": list(tgt.ident), "reissued": True})
            continue
        m = rng.choice(list(METHODS) if rng.random() < 0.15 else
                       ["read10", "read12", "read16", "write10", "write12", "write16", "writesame10", "writesame16"])
        cls, width = METHODS[m]
        a, data, kw = {}, b"", {}
        if width:
            lbas = [x for x in CLUSTERS if x < 2 ** width]
            n = rng.randint(1, 3)
            lba = rng.choice([x for x in lbas if x + n - 1 < 2 ** width])
            a = {"lba": lba}
        try:
            tgt.last = None
            if m.startswith("read") and width:
                flags = {k: rng.getrandbits(1) for k in ("dpo", "fua", "rarc") if rng.random() < 0.3}
                a["tl"] = n
                cmd = getattr(facade, m)(lba, n, **flags)
            elif m.startswith("writesame"):
                kw = {k: rng.getrandbits(1) for k in ("anchor", "unmap") if rng.random() < 0.4}
                if m == "writesame16" and rng.random() < 0.25:
                    kw["ndob"] = 1
                data = bytes(rng.getrandbits(8) or 1 for _ in range(bs))
                a["nb"] = n
                if m == "writesame16":
                    a["ndob"] = kw.get("ndob", 0)      # the caller's NDOB: the target must read the same off the CDB
                cmd = getattr(facade, m)(lba, n, None if kw.get("ndob") else bytearray(data), **kw)
                if kw.get("ndob"):
                    data = b""
            elif m.startswith("write"):
                data = bytes(rng.getrandbits(8) or 1 for _ in range(bs * n))
                a["tl"] = n
                kw = {k: rng.getrandbits(1) for k in ("dpo", "fua") if rng.random() < 0.3}
                cmd = getattr(facade, m)(lba, n, bytearray(data), **kw)
            elif m.startswith("synchronize"):
                a["numblks"] = rng.randint(0, 3)
                cmd = getattr(facade, m)(lba, a["numblks"], immed=rng.getrandbits(1))
            else:
                cmd = getattr(facade, m)()
            exc = ""
        except Exception as ex:
            cmd, exc = None, type(ex).__name__
        rec = tgt.last or {"cdb": [], "dout": [], "din_target": []}
        res = {}
        if cmd is not None and isinstance(cmd.result, dict) and cmd.result:
            res = flatten({k: v for k, v in cmd.result.items() if k in ("returned_lba", "block_length", "t10_vendor_identification")})
        ev.append({"ev": "io", "method": m, "cls": cls, "tr": tr, "a": {k: num(v) for k, v in a.items()},
                   "data": list(data), "cdb": rec["cdb"], "dout": rec["dout"], "din_target": rec["din_target"],
                   "din_seen": list(cmd.datain) if cmd is not None else [], "exc": exc,
                   "res": res or {"#none": []}, "ident": list(tgt.ident)})
    return ev


def composed(chk, fs):
    """spec -> code on the composition (Initiator.tla): behaviours generated by TLC (-simulate) mix I/O, injected
    CHECK CONDITION / BUSY completions, node replacement / removal and re-attach; each is replayed step by step on a
    real SCSI facade over SCSIDevice (tmpfs node, stand-in sgio, live target) and the caller-visible outcome of every
    step is compared with what the specification recorded"""
    ev = chk.ev
    icfg = "MC_Initiator_quick.cfg" if chk.quick else "MC_Initiator.cfg"
    r = tlc.run("Initiator", icfg, workers=16, timeout=1200, name="c12init")
    if not r.ok:
        raise tlc.TLCFailure("Initiator.tla violated %s\n%s" % (r.violated, r.counterexample[:1500]))
    ev.tlc("Initiator/%s (exhaustive, %d steps)" % (icfg, 3 if chk.quick else 4), r)
    short = [v for t, v in r.prints if t == "BEHAVIOUR"]
    rng = random.Random(chk.seed)
    behaviours = rng.sample(short, min(len(short), 300 if chk.quick else 20000))
    for cfg in ("Sim_Initiator_on.cfg", "Sim_Initiator_off.cfg", "Sim_Initiator_iscsi.cfg"):
        rs = tlc.run("Initiator", cfg, workers=1, timeout=600, name="c12sim", simulate="num=%d" % (150 if chk.quick else 15000),
                     extra=["-depth", "30", "-seed", str(chk.seed + 11)])
        if rs.violated:
            raise tlc.TLCFailure("Initiator.tla (simulation) violated %s" % rs.violated)
        behaviours += [v for t, v in rs.prints if t == "BEHAVIOUR"]
    fi_ = __import__("harness.fakes.iscsi", fromlist=["x"])
    d = bindings.shm_dir("c12i")
    path = os.path.join(d, "sg0")
    sd = mod("pyscsi.pyscsi.scsi_device")
    SCSI = mod("pyscsi.pyscsi.scsi").SCSI
    n = [0]

    def new_node():
        n[0] += 1
        tmp = path + ".n%d" % n[0]
        with open(tmp, "wb") as f:
            f.write(b"x")
        os.rename(tmp, path)
    sense = bytes([0x70, 0, 5, 0, 0, 0, 0, 10, 0, 0, 0, 0, 0x24, 0, 0, 0, 0, 0])
    steps = 0
    ofail = {"next": False}
    import builtins

    def opening(path_, mode="r", buffering=-1, *a_, **k_):
        if ofail["next"]:
            ofail["next"] = False
            raise PermissionError(13, "Permission denied (injected on open)")
        return builtins.open(path_, mode, buffering=buffering)
    sd.open = opening
    try:
        for b in behaviours:
            if os.path.exists(path):
                os.unlink(path)
            new_node()
            live = LiveTarget(1, 1)
            live.disk = {0: b"\0", 1: b"\0"}
            ofail["next"] = False
            st = {"fault": None}

            def target(cdb, dataout, datain, live=live, st=st):
                if st["fault"] is not None:
                    f, st["fault"] = st["fault"], None
                    return (2, sense) if f == 2 else (f, None)
                return live(cdb, dataout, datain)
            fs.reset(target)
            fi_.reset(target)
            if b.get("tr") == "iscsi":
                dev = mod("pyscsi.pyiscsi.iscsi_device").ISCSIDevice("iscsi://h/iqn.t/0", "iqn.i")
            else:
                dev = sd.SCSIDevice(path, readwrite=True, detect_replugged=bool(b["detect"]))
            facade = SCSI(dev, 1)
            rd = None           # the caller's one long-lived read command
            wr, wbuf = {}, {}   # ... and its long-lived write commands (one per CDB size) with their buffers
            for i, s_ in enumerate(b["steps"]):
                a = s_["act"]
                out, data = "ok", 0
                try:
                    if a == "write":
                        facade.write10(s_["lba"], 1, bytearray([s_["val"]]))
                    elif a == "zero":
                        facade.writesame16(s_["lba"], 1, None, ndob=1)
                    elif a == "fill":
                        facade.writesame10(s_["lba"], 0, bytearray([s_["val"]]))
                    elif a == "read":
                        data = facade.read10(s_["lba"], 1).datain[0]
                    elif a == "rewrite":
                        wk = ("Write10", "Write12", "Write16")[(i + len(b["steps"])) % 3]
                        if wk not in wr:
                            wbuf[wk] = bytearray([0xEE])
                            wr[wk] = cmds.klass(wk)(getattr(dev.opcodes, "WRITE_" + wk[5:]), 1, 1 - s_["lba"], 1, wbuf[wk])
                        wbuf[wk][0] = s_["val"]
                        wr[wk].cdb = wr[wk].build_cdb(opcode=wr[wk].opcode.value, lba=s_["lba"], tl=1)
                        facade.execute(wr[wk])
                    elif a == "reread":
                        if rd is None:
                            rd = cmds.klass("Read10")(dev.opcodes.READ_10, 1, 1 - s_["lba"], 1)
                        rd.cdb = rd.build_cdb(opcode=rd.opcode.value, lba=s_["lba"], tl=1)
                        facade.execute(rd)
                        data = rd.datain[0]
                    elif a == "reattach":
                        facade(dev)
                    elif a == "replug":
                        new_node()
                    elif a == "unplug":
                        os.unlink(path)
                    elif a == "plug":
                        new_node()
                    elif a == "arm":
                        st["fault"] = s_["val"]
                    elif a == "armopen":
                        ofail["next"] = True
                except Exception as ex:
                    out = type(ex).__name__
                steps += 1
                if out != s_["out"] or (a in ("read", "reread") and out == "ok" and data != s_["data"]):
                    chk.violation({"clause": "ComposedBehaviour", "cls": "", "field": "", "method": a, "tr": "sgio",
                                   "detail": {"step": i, "expected": s_, "observed": {"out": out, "data": data}, "transport": b.get("tr"),
                                              "behaviour": b["steps"][:i + 1], "detect": b["detect"]},
                                   "what": "Initiator.tla behaviour replayed"}, dedup=("Composed", a, s_["out"], out))
                    break
            try:
                dev.close()
            except Exception:
                pass
            ev.case(("behaviour", json_key(b)))
    finally:
        try:
            del sd.open
        except Exception:
            pass
        for f in os.listdir(d):
            os.unlink(os.path.join(d, f))
        os.rmdir(d)
    ev.replayed(steps)
    ev.cov["composed_behaviours_replayed"] = len(behaviours)
    ev.sample({"behaviour": behaviours[-1]["steps"][:8]})


def json_key(b):
    import json
    return json.dumps(b, sort_keys=True)[:600]


def run(chk, replay=None):
    ev = chk.ev
    ev.assumptions += [
        "the live target is harness environment; TLC's target (TargetRules.tla) re-derives every read from the "
        "received CDBs and flags a non-conformant harness target as a machinery failure",
        "a conformant target writes the block it is sent also when UNMAP/ANCHOR are set; WRITE SAME with nb = 0 is excluded",
        "block sizes 1, 2 and 4 bytes; LBAs from clusters around 0, 2^32 and the top of 64 bits",
    ]
    if replay is not None:
        chk.only(replay, keys=("clause", "method", "tr"))
    r = tlc.run("Target", "MC_Target.cfg", workers=16, timeout=900, name="c12mc")
    if not r.ok:
        raise tlc.TLCFailure("Target.tla violated %s\n%s" % (r.violated, r.counterexample[:1500]))
    ev.tlc("Target/MC_Target.cfg", r)
    fs, fi = bindings.install(True, True)
    d = bindings.shm_dir("c12")
    path = os.path.join(d, "sg0")
    open(path, "wb").close()
    SCSI = mod("pyscsi.pyscsi.scsi").SCSI
    rng = random.Random(chk.seed)
    hists = []
    try:
        for k in range(40 if chk.quick else 2500):
            tr = ("sgio", "iscsi")[k % 2]
            bs = rng.choice([1, 2, 4])
            tgt = LiveTarget(bs, 2 ** 64 - 1)
            fs.reset(tgt)
            fi.reset(tgt)
            dev = mod("pyscsi.pyscsi.scsi_device").SCSIDevice(path, readwrite=True) if tr == "sgio" else \
                mod("pyscsi.pyiscsi.iscsi_device").ISCSIDevice("iscsi://h/iqn.t/0", "iqn.i")
            facade = SCSI(dev, bs)
            hists.append(history(rng, facade, tgt, tr, bs, rng.randint(10, 60 if chk.quick else 200)))
            dev.close()
            ev.case(("history", k, tr, bs))
    finally:
        os.unlink(path)
        os.rmdir(d)
    import concurrent.futures as cf
    nst = {"states": 0, "transitions": 0, "shards": 0, "wall": 0.0}
    total = 0

    def judge(h):
        return h, tlc.judge_traces("Trace_Target", "Trace_Target.cfg", h, shard=10 ** 9, procs=1, name="c12tr")
    # several histories per TLC process
    groups = [sum(hists[i:i + 8], []) for i in range(0, len(hists), 8)]
    with cf.ThreadPoolExecutor(max_workers=16) as ex:
        for h, (vs, st) in ex.map(judge, groups):
            total += len(h)
            for k in nst:
                nst[k] += st[k]
            for i, clause, detail in vs:
                e = h[i]
                if clause == "HarnessTargetNotConformant":
                    raise tlc.TLCFailure("the harness's live target is not conformant: %s" % e)
                chk.violation({"clause": clause, "cls": e.get("cls", ""), "field": "", "method": e.get("method"), "tr": e.get("tr"),
                               "detail": {"expected": detail[:400], "event": {k: e[k] for k in ("method", "a", "cdb", "exc")}},
                               "what": "facade I/O against the target"}, dedup=(clause, e.get("method"), e.get("tr")))
    ev.judged("Trace_Target", nst, total)
    composed(chk, fs)
    ev.sample({"event": {k: hists[0][3][k] for k in ("method", "a", "cdb", "dout", "din_seen")}})
    ev.cov["rule"] = ("random histories (10-60 / 10-200 operations) of read10/12/16, write10/12/16, writesame10/16 (incl. "
                      "NDOB, UNMAP, ANCHOR), synchronizecache, readcapacity10/16 and inquiry through the facade over "
                      "both transports against a live target; LBAs around 0, 2^32 and 2^64; every command replayed by "
                      "TLC's own target from the received CDB and compared with what the caller named and sees. distinct "
                      "by history.")


if __name__ == "__main__":
    main("C12", run)
