"""C17 - invalid requests are refused before anything is sent."""
import random

from ..core import cmds, tlc
from ..core.devices import RecDevice
from ..core.lib import mod
from ..core.runner import main
from . import cdb_common as cc


def _facade(setname="sbc", blocksize=0):
    scsi = mod("pyscsi.pyscsi.scsi")
    ec = mod("pyscsi.pyscsi.scsi_enum_command")
    dev = RecDevice(ec.spc)
    s = scsi.SCSI(dev, blocksize)          # attach: one INQUIRY
    dev.opcodes = getattr(ec, setname)
    dev.calls = []
    return s, dev


def _cscd(std, code=0xE4, extra=None, lu=0):
    key = "target_descriptor_parameters" if std == 4 else "cscd_descriptor_parameters"
    d = {"descriptor_type_code": code, "peripheral_device_type": 0, "lu_id_type": lu,
         "relative_initiator_port_identifier": 1,
         key: {"code_set": 1, "association": 0, "designator_type": 3, "designator_length": 8,
               "designator": {"naa": 5, "ieee_company_id": 0x123456, "vendor_specific_identifier": 0x789}},
         "device_type_specific_parameters": {"pad": 0, "disk_block_length": 512}}
    if extra:
        d.update(extra)
    return d


def _seg(std, code=0x02, extra=None):
    s, d = ("source_target_descriptor_id", "destination_target_descriptor_id") if std == 4 else \
        ("source_cscd_descriptor_id", "destination_cscd_descriptor_id")
    x = {"descriptor_type_code": code, "dc": 0, "cat": 0, s: 0, d: 1}
    if code in (0x02, 0x0D):
        x.update({"block_device_number_of_blocks": 4, "source_block_device_logical_block_address": 1,
                  "destination_block_device_logical_block_address": 2})
    else:
        x = {"descriptor_type_code": code, "cat": 0, s: 0, d: 1}
    if extra:
        x.update(extra)
    return x


def request(k, v, std=4):
    """run one request against the real code; returns dict(exc, execs, obj)"""
    opc = mod("pyscsi.pyscsi.scsi_opcode")
    ec = mod("pyscsi.pyscsi.scsi_enum_command")
    exc, execs, obj = "", 0, False
    try:
        if k == "opcode_ctor":
            r = cmds.klass("TestUnitReady")(opc.OpCode("X", v, {}))
            obj = r is not None
        elif k == "opcode_reuse":
            prior = [0x00, 0x28, 0x88, 0xA0][v // 256]
            o = opc.OpCode("X", prior, {})
            cmds.klass("TestUnitReady")(o)                 # first use, valid
            mod("pyscsi.pyscsi.scsi_command").SCSICommand.init_cdb(o)
            o.value = v % 256                              # public setter
            n = len(mod("pyscsi.pyscsi.scsi_command").SCSICommand.init_cdb(o))
            r = cmds.klass("TestUnitReady")(o)
            obj = r is not None
        elif k == "opcode_len":
            mod("pyscsi.pyscsi.scsi_command").SCSICommand.init_cdb(opc.OpCode("X", v, {}))
            obj = True
        elif k == "prin_sa":
            s, dev = _facade("spc")
            try:
                r = s.persistentreservein(v)
                obj = r is not None
            finally:
                execs = len(dev.calls)
        elif k in ("facade_bs0", "facade_bs_reset"):
            s, dev = _facade("sbc", 0 if k == "facade_bs0" else 512)
            if k == "facade_bs_reset":
                s.blocksize = 0
            data = bytearray(0)
            try:
                r = [lambda: s.read10(1, 1), lambda: s.read12(1, 1), lambda: s.read16(1, 1),
                     lambda: s.write10(1, 0, data), lambda: s.write12(1, 0, data), lambda: s.write16(1, 0, data),
                     lambda: s.writesame10(1, 1, data), lambda: s.writesame16(1, 1, data),
                     lambda: s.writesame16(1, 1, None, ndob=1)][v]()
                obj = r is not None
            finally:
                execs = len(dev.calls)
        elif k.startswith("xcopy"):
            K = cmds.klass("ExtendedCopy4" if std == 4 else "ExtendedCopy5")
            op = ec.spc.EXTENDED_COPY
            tl, sl = [_cscd(std), _cscd(std)], []
            if k == "xcopy_cscd_key":
                tl = [_cscd(std, extra={"bogus_key": 1} if v else None)]
            elif k == "xcopy_seg_key":
                sl = [_seg(std, extra={"bogus_key": 1} if v else None)]
            elif k == "xcopy_cscd_type":
                tl = [_cscd(std, code=v)]
            elif k == "xcopy_seg_type":
                sl = [_seg(std, code=v)]
            elif k == "xcopy_lu_id_type":
                tl = [_cscd(std, lu=v)]
            if std == 4:
                r = K(op, target_descriptor_list=tl, segment_descriptor_list=sl)
            else:
                r = K(op, cscd_descriptor_list=tl, segment_descriptor_list=sl)
            obj = r is not None
        elif k.startswith("tid_"):
            K = cmds.klass("PersistentReserveOut")
            op = ec.spc.PERSISTENT_RESERVE_OUT
            t = {"protocol_id": 5, "iscsi_name": "iqn.2001-04.com.example:storage"}
            if k == "tid_isid_without_format":
                t["iscsi_initiator_session_id"] = "0123456789ab"
                if v:
                    t["tpid_format"] = 0
            elif k == "tid_format_without_isid":
                t["tpid_format"] = 1
                if v:
                    t["iscsi_initiator_session_id"] = ""
            elif v:
                t["tpid_format"] = 1
                t["iscsi_initiator_session_id"] = "0123456789ab"
            r = K(op, op.serviceaction.REGISTER_AND_MOVE, transport_id=t, relative_target_port_id=1)
            obj = r is not None
    except Exception as ex:
        exc = type(ex).__name__
    return {"exc": exc, "execs": execs, "obj": obj}


def run(chk, replay=None):
    chk.ev.assumptions += [
        "XCOPY type codes whose assignment differs between SPC-4 and SPC-5 (EBh ECh FEh; segments 10h-19h BEh BFh) "
        "may be refused with either ValueError or NotImplementedError",
        "a request that must be accepted but raises is reported by C05/C01 (Constructible), not here",
    ]
    if replay is not None:
        chk.only(replay, keys=("clause", "cls", "set", "k", "v"))
    want = cc.CLAUSES["C17"]
    # block size refusals through every constructor, over the whole star
    cases = cc.spec_cases(chk, "c17mc")
    ref = [c for c in cases if c["refuse"]]
    cc.judge(chk, cc.replay(chk, ref, want), want, "c17trc")
    chk.ev.sample({"spec_case": {k: ref[0][k] for k in ("cls", "a", "refuse")}})
    # the request state machine
    r = tlc.run("MC_Refuse", workers=8, coverage=True, name="c17mc2")
    if not r.ok:
        raise tlc.TLCFailure("MC_Refuse violated %s\n%s" % (r.violated, r.counterexample[:2000]))
    for a in ("Validate", "Build", "Send"):
        if r.coverage.get(a, (0, 0))[0] == 0:
            raise tlc.TLCFailure("MC_Refuse vacuous: %s never taken" % a)
    chk.ev.tlc("MC_Refuse", r)
    reqs = [v for t, v in r.prints if t == "CASE"]
    events = []
    for q in reqs:
        for std in ((4, 5) if q["k"].startswith("xcopy") else (4,)):
            o = request(q["k"], q["v"], std)
            chk.ev.case((q["k"], q["v"], std))
            # spec -> code comparison
            exp = q["expect"]
            okexc = (o["exc"] in ("ValueError", "NotImplementedError")) if exp == "either" else (o["exc"] == exp)
            if exp and (not okexc or o["execs"] or o["obj"]):
                chk.violation({"clause": "RefusedBeforeSend", "cls": "", "set": "", "k": q["k"], "v": q["v"],
                               "field": "", "detail": {"expected": exp, "observed": o, "std": std},
                               "what": "MC_Refuse case"}, dedup=("Refuse", q["k"], q["v"], std))
            events.append(dict(o, k=q["k"], v=q["v"], std=std))
    chk.ev.replayed(len(events))
    # code -> spec: further random requests judged by TLC
    rng = random.Random(chk.seed)
    extra = []
    for _ in range(60 if chk.quick else 60000):
        k = rng.choice(["prin_sa", "opcode_ctor", "xcopy_seg_type", "xcopy_cscd_type", "facade_bs_reset"])
        v = rng.randint(0, 255) if k != "prin_sa" else rng.choice([rng.randint(0, 31), rng.randint(32, 2 ** 20), -rng.randint(1, 40)])
        if k == "facade_bs_reset":
            v = rng.randint(0, 8)
        if k == "prin_sa" and v > 65536:
            v = 65536
        std = rng.choice((4, 5))
        extra.append(dict(request(k, v, std), k=k, v=v, std=std))
    allev = events + extra
    vs, st = tlc.judge_traces("Trace_Refuse", "Trace_Refuse.cfg", allev, name="c17tr")
    chk.ev.judged("Trace_Refuse", st, len(allev))
    for i, clause, detail in vs:
        if clause in want:
            e = allev[i]
            chk.violation({"clause": clause, "cls": "", "set": "", "k": e["k"], "v": e["v"], "field": "",
                           "detail": {"expected": detail, "observed": e}, "what": "request event"},
                          dedup=("Refuse", e["k"], e["v"], e["std"]))
    chk.ev.sample({"event": allev[0]})
    chk.ev.sample({"event": [e for e in allev if e["k"] == "prin_sa"][5]})
    chk.ev.cov["rule"] = ("block-size-0 variants of every star case of the block/ATA classes through the constructors; "
                          "every request of MC_Refuse (256 opcodes x 2 routes, PR IN service actions, XCOPY keys/type "
                          "codes/lu_id_type for both XCOPY classes, TransportID inconsistencies, facade calls without "
                          "block size) executed against the library with a recording device, compared with the spec "
                          "verdict and judged again by Trace_Refuse. distinct by (kind, value, standard).")


if __name__ == "__main__":
    main("C17", run)
