"""C13 - each facade call sends exactly one command and decodes what the device returned."""
import inspect
import itertools
import random

from ..core import cmds, datafmt, tlc
from ..core.devices import RecDevice
from ..core.lib import mod
from ..core.runner import main
from ..core.values import flatten, num
from . import cdb_common as cc

# facade method -> (command class in T10Cdb.tla, required positional argument names, response format or None)
METHODS = {
    "exchangemedium": ("ExchangeMedium", ["xfer", "source", "dest1", "dest2"], None),
    "getlbastatus": ("GetLBAStatus", ["lba"], "GetLBAStatus"),
    "inquiry": ("Inquiry", [], "InquiryStd"),
    "initializeelementstatus": ("InitializeElementStatus", [], None),
    "initializeelementstatuswithrange": ("InitializeElementStatusWithRange", ["xfer", "elements"], None),
    "modesense6": ("ModeSense6", ["page_code"], "ModeSense6"),
    "modesense10": ("ModeSense10", ["page_code"], "ModeSense10"),
    "opencloseimportexportelement": ("OpenCloseImportExportElement", ["xfer", "acode"], None),
    "positiontoelement": ("PositionToElement", ["xfer", "dest"], None),
    "preventallowmediumremoval": ("PreventAllowMediumRemoval", [], None),
    "read10": ("Read10", ["lba", "tl"], None), "read12": ("Read12", ["lba", "tl"], None),
    "read16": ("Read16", ["lba", "tl"], None),
    "readcapacity10": ("ReadCapacity10", [], "ReadCapacity10"), "readcapacity16": ("ReadCapacity16", [], "ReadCapacity16"),
    "readcd": ("ReadCd", ["lba", "tl"], "#readcd"),
    "readdiscinformation": ("ReadDiscInformation", ["data_type"], "Rdi"),
    "readelementstatus": ("ReadElementStatus", ["start", "num"], "ReadElementStatus"),
    "movemedium": ("MoveMedium", ["xfer", "source", "dest"], None),
    "synchronizecache10": ("SynchronizeCache10", ["lba", "numblks"], None),
    "synchronizecache16": ("SynchronizeCache16", ["lba", "numblks"], None),
    "testunitready": ("TestUnitReady", [], None),
    "write10": ("Write10", ["lba", "tl", "data"], None), "write12": ("Write12", ["lba", "tl", "data"], None),
    "write16": ("Write16", ["lba", "tl", "data"], None),
    "writesame10": ("WriteSame10", ["lba", "nb", "data"], None), "writesame16": ("WriteSame16", ["lba", "nb", "data"], None),
    "reportluns": ("ReportLuns", [], "ReportLuns"), "reportpriority": ("ReportPriority", [], "ReportPriority"),
    "reporttargetportgroups": ("ReportTargetPortGroups", [], "RtpgLen"),
    "atapassthrough12": ("ATAPassThrough12", ["protocal", "t_length", "byte_block", "t_dir", "t_type", "off_line",
                                              "fetures", "count", "lba", "command"], None),
    "atapassthrough16": ("ATAPassThrough16", ["protocal", "t_length", "byte_block", "t_dir", "t_type", "off_line",
                                              "fetures", "count", "lba", "command"], None),
    "persistentreservein": ("#prin", ["service_action"], "#prin"),
}
PRIN = {0: ("PersistentReserveInReadKeys", "PrinKeys"), 1: ("PersistentReserveInReadReservation", "PrinReservation"),
        2: ("PersistentReserveInReportCapabilities", "PrinCapabilities"), 3: ("PersistentReserveInReadFullStatus", "PrinFullStatus")}
# methods whose parameter lists are composed by the library are driven by C05: modeselect6/10,
# persistentreserveout, extendedcopy4/5


def optional_args(K):
    """keyword arguments of the command constructor with their defaults (the names the facade documents)"""
    sig = inspect.signature(K.__init__)
    out = []
    for n, p in sig.parameters.items():
        if n in ("self", "opcode", "blocksize", "data", "kwargs") or p.default is inspect.Parameter.empty:
            continue
        out.append(n)
    return out


class SessTarget(object):
    """the target of Session.tla: two one-byte blocks, a capacity, an identity, a reported device type, and
    a completion it can be told to give the next command"""
    SENSE = bytes([0x70, 0, 5, 0, 0, 0, 0, 10, 0, 0, 0, 0, 0x24, 0, 0, 0, 0, 0])
    SENSE2 = bytes([0x70, 0, 6, 0, 0, 0, 0, 10, 0, 0, 0, 0, 0x29, 0, 0, 0, 0, 0])
    SENSE3 = bytes([0x72, 4, 0x44, 0x00, 0, 0, 0, 0])

    def __init__(self):
        self.ptype, self.cap, self.ident, self.disk, self.fault, self.seen = 0, 1, 1, {0: 0, 1: 0}, 0, 0
        self.for_b = False        # the command ARRIVED through the changer's device object (set by the bindings' shim)

    def __call__(self, cdb, dataout, datain):
        import struct
        self.seen += 1
        if self.fault:
            st, self.fault = self.fault, 0
            return {2: (2, self.SENSE), 3: (2, self.SENSE2), 5: (2, self.SENSE3)}.get(st, (st, None))
        op = cdb[0]
        if op == 0x12:
            d = bytearray(96)
            d[0], d[2], d[4] = (8 if self.for_b else self.ptype), 6, 91
            d[8:16] = b"VERIFTG%d" % self.ident
            datain[:len(d)] = d[:len(datain)]
        elif op == 0x25:
            datain[:8] = struct.pack(">II", self.cap, 1)[:len(datain)]
        elif op == 0x9E and (cdb[1] & 0x1F) == 0x10:
            d = struct.pack(">QI", self.cap, 1) + bytes(20)
            datain[:len(d)] = d[:len(datain)]
        elif op == 0x28:
            datain[0:1] = bytes([self.disk[struct.unpack_from(">I", cdb, 2)[0]]])
        elif op == 0x2A:
            self.disk[struct.unpack_from(">I", cdb, 2)[0]] = dataout[0]
        return 0, None


def session(chk):
    """spec -> code on Session.tla: every exported behaviour of one facade's lifetime is replayed step by step
    on the real SCSI facade over the stand-in bindings; per step the number of commands the target saw, the
    outcome and the values the caller reads are compared with the specification's"""
    import os
    from ..core import bindings
    from .c06 import scramble
    ev = chk.ev
    beh = []
    for cfg in ("MC_Session.cfg", "MC_Session_sgio.cfg"):
        r = tlc.run("Session", cfg, workers=8, timeout=900, name="c13sess")
        if not r.ok:
            raise tlc.TLCFailure("Session.tla violated %s\n%s" % (r.violated, r.counterexample[:1500]))
        ev.tlc("Session/" + cfg + " (exhaustive, 3 steps)", r)
        b = [v for t, v in r.prints if t == "SESSION"]
        beh += b if not chk.quick else random.Random(chk.seed).sample(b, min(len(b), 1500))
    for cfg in ("Sim_Session_iscsi.cfg", "Sim_Session_sgio.cfg"):
        rs = tlc.run("Session", cfg, workers=1, timeout=900, name="c13sim", simulate="num=%d" % (80 if chk.quick else 20000),
                     extra=["-depth", "40", "-seed", str(chk.seed + 13)])
        if rs.violated:
            raise tlc.TLCFailure("Session.tla (simulation) violated %s" % rs.violated)
        beh += [v for t, v in rs.prints if t == "SESSION"]
    fs, fi = bindings.install(True, True)
    d = bindings.shm_dir("c13s")
    path = os.path.join(d, "sg0")
    open(path, "wb").close()
    path_b = os.path.join(d, "sg0b")          # the changer's node: which device a command arrived at is the target's
    open(path_b, "wb").close()                # business (inode of the handle / iSCSI target name), not the harness's
    ino_b = os.stat(path_b).st_ino
    SCSI = mod("pyscsi.pyscsi.scsi").SCSI
    steps = 0
    try:
        for b in beh:
            tgt = SessTarget()

            def via_sgio(c_, o_, i_, tgt=tgt):
                tgt.for_b = fs.CALLS[-1]["ino"] == ino_b
                return tgt(c_, o_, i_)

            def via_iscsi(c_, o_, i_, tgt=tgt):
                tgt.for_b = fi.LOG[-1][1].get("target") == "iqn.changer"
                return tgt(c_, o_, i_)
            fs.reset(via_sgio)
            fi.reset(via_iscsi)
            if b["tr"] == "iscsi":
                dev = mod("pyscsi.pyiscsi.iscsi_device").ISCSIDevice("iscsi://h/iqn.t/0", "iqn.i")
            else:
                dev = mod("pyscsi.pyscsi.scsi_device").SCSIDevice(path, readwrite=True)
            facade = SCSI(dev, 1)
            if b["tr"] == "iscsi":
                dev_b = mod("pyscsi.pyiscsi.iscsi_device").ISCSIDevice("iscsi://h/iqn.changer/0", "iqn.i")
            else:
                dev_b = mod("pyscsi.pyscsi.scsi_device").SCSIDevice(path_b, readwrite=True)
            facade_b = SCSI(dev_b, 0)
            tgt.seen = 0
            on_b = False
            kept, kind, held = None, "", None
            for i, s_ in enumerate(b["steps"]):
                a = s_["act"]
                seen0 = tgt.seen
                out, d1, d2 = "ok", 0, 0

                def read_kept(c, k):
                    if k == "cap":
                        return int(c.result["returned_lba"]), 0
                    v = bytes(c.result["t10_vendor_identification"])
                    return (int(v[-1:]) if v[:7] == b"VERIFTG" else 99), int(c.result["peripheral_device_type"])
                try:
                    if a == "write":
                        facade.write10(s_["x"], 1, bytearray([s_["y"]]))
                    elif a == "read":
                        d1 = facade.read10(s_["x"], 1).datain[0]
                    elif a in ("cap", "keepcap"):
                        c = facade.readcapacity10()
                        d1, d2 = read_kept(c, "cap")
                        if a == "keepcap":
                            kept, kind = c, "cap"
                    elif a in ("inq", "keepinq"):
                        c = facade.inquiry()
                        d1, d2 = read_kept(c, "inq")
                        if a == "keepinq":
                            kept, kind = c, "inq"
                    elif a == "reissue":
                        facade.execute(kept)
                        kept.unmarshall()
                        d1, d2 = read_kept(kept, kind)
                    elif a == "edit":
                        scramble(kept.result)
                    elif a == "ata":
                        facade.atapassthrough16(0, 0, 0, 0, 0, 0, 0, 0, 0, 0xEC)
                    elif a == "tur":
                        facade.testunitready()
                    elif a == "reattach":
                        facade(dev_b if on_b else dev)
                    elif a == "switch":
                        on_b = not on_b
                        facade(dev_b if on_b else dev)
                    elif a == "probe9E":
                        d1 = int(facade.readcapacity16().result["returned_lba"])
                    elif a == "probeA3":
                        facade.reporttargetportgroups()
                    elif a == "inspect":
                        d1 = int(held.data["sense_key"])
                    elif a.startswith("b_"):
                        if a == "b_probe9E":
                            facade_b.readcapacity16()
                        elif a == "b_probeA3":
                            facade_b.reporttargetportgroups()
                        else:
                            facade_b(dev_b)
                    elif a == "settype":
                        tgt.ptype = s_["x"]
                    elif a == "resize":
                        tgt.cap = s_["x"]
                    elif a == "rename":
                        tgt.ident = s_["x"]
                    elif a == "arm":
                        tgt.fault = s_["x"]
                except BaseException as ex:
                    out = type(ex).__name__
                    if out == "CheckCondition":
                        try:
                            d1 = int(ex.data["sense_key"])
                        except Exception:
                            d1 = 99
                        if held is None:
                            held = ex
                sent = tgt.seen - seen0
                if s_["out"] == "refused" and out != "ok" and sent == 0:
                    out = "refused"
                steps += 1
                if (out, sent, d1, d2) != (s_["out"], s_["sent"], s_["d1"], s_["d2"]):
                    clause = "ExactlyOnce" if sent != s_["sent"] else ("DecodesWhatDeviceReturned" if out == s_["out"] else "SessionOutcome")
                    chk.violation({"clause": clause, "cls": "", "field": "", "method": "session:" + a, "set": b["tr"],
                                   "detail": {"step": i, "expected": s_, "observed": {"out": out, "sent": sent, "d1": d1, "d2": d2},
                                              "behaviour": b["steps"][:i + 1]},
                                   "what": "Session.tla behaviour replayed"}, dedup=("Session", a, s_["out"], out, sent))
                    break
            for dv in (dev, dev_b):
                try:
                    dv.close()
                except Exception:
                    pass
            ev.case(("session", str(b)[:400]))
    finally:
        for f in os.listdir(d):
            os.unlink(os.path.join(d, f))
        os.rmdir(d)
    ev.cov["session_behaviours_replayed"] = len(beh)
    ev.cov["session_steps"] = steps


def run(chk, replay=None):
    ev = chk.ev
    ev.assumptions += [
        "the documented argument names are those of the constructors' signatures (the names the repository's tests "
        "and tools use); facade docstrings are free text and are not parsed",
        "device-provided buffer contents come from the untrusted generators of C04 and are re-parsed by TLC",
        "methods whose parameter lists the library composes (modeselect6/10, persistentreserveout, extendedcopy4/5) "
        "are driven by the C05 check",
    ]
    if replay is not None:
        chk.only(replay, keys=("clause", "method", "set"))
    for c in ("MC_Facade.cfg", "MC_Facade_nodec.cfg"):
        r = tlc.run("Facade", c, workers=2, coverage=True, name="c13mc")
        if not r.ok:
            raise tlc.TLCFailure("Facade.tla violated %s" % r.violated)
        ev.tlc("Facade/" + c, r)
    cases = cc.spec_cases(chk, "c13cases")
    W = cc.widths(cases)
    sets = {c["cls"]: sorted(c["sets"]) for c in cases}
    phs = {c["cls"]: c["ph"] for c in cases}
    ec = mod("pyscsi.pyscsi.scsi_enum_command")
    SCSI = mod("pyscsi.pyscsi.scsi").SCSI
    rng = random.Random(chk.seed)
    calls, cons, unms = [], [], []
    meta = []

    def value(cls, name):
        mx = W[cls]["max"].get(name, 1)
        lim = W[cls]["lim"].get(name)
        if lim:
            return rng.choice(sorted(x for x in lim if x) or [0])
        if name in ("alloclen", "alloc_len"):
            # never a value some signature has as its default (96, 4096, 16384 ...): a dropped argument must show;
            # one value needs the third byte of a three-byte field
            return min(mx, rng.choice([100, 252, 4000, 0x12000]))
        # zero is a value like any other (WRITE SAME with NUMBER OF BLOCKS 0 means "to the end of the medium"): the
        # command still goes to the device, once
        v = (0 if rng.random() < 0.12 else rng.randint(1, mx)) if mx > 0 else 0
        return v

    def optvalue(cls, name):
        # an optional argument passed explicitly must reach the CDB also when it is 0
        if name in ("alloclen", "alloc_len"):
            return value(cls, name)        # allocation length 0 = no data phase: nothing to decode (not exercised here)
        return 0 if rng.random() < 0.3 else value(cls, name)

    for method in sorted(METHODS):
        cls0, req, fmt0 = METHODS[method]
        variants = [(cls0, fmt0, None)] if cls0 != "#prin" else [(PRIN[k][0], PRIN[k][1], k) for k in PRIN]
        for cls, fmt, sa in variants:
            K = cmds.klass(cls)
            opt = [n for n in optional_args(K) if n not in req]
            subsets = list(itertools.chain.from_iterable(itertools.combinations(opt, k) for k in range(len(opt) + 1)))
            if len(subsets) > (24 if chk.quick else 800):
                keep = [s for s in subsets if len(s) <= 1 or len(s) == len(opt)]
                subsets = keep + rng.sample(subsets, (24 if chk.quick else 800) - min(len(keep), 20))
            for setname in sets[cls]:
                table = getattr(ec, setname)
                if cmds.opcode(cls, setname) is None:
                    continue
                for sub in subsets:
                    bs = 4 if phs[cls] in ("in_blocks", "out_data", "out_block", "ata") else 0
                    a = {}
                    for n in req:
                        if n == "data":
                            continue
                        a[n] = sa if n == "service_action" else value(cls, n)
                    for n in sub:
                        a[n] = optvalue(cls, n)
                    if phs[cls] in ("in_blocks", "out_data"):
                        a["tl"] = rng.randint(0, 3)
                    if phs[cls] == "readcd":
                        a["tl"] = rng.randint(0, 2)
                        a["lba"] = rng.randint(0, 2 ** 20)      # sector numbers become result keys: kept below 2^31 for TLC
                        # user data only is valid with every expected sector type; two calls in three name the sector
                        # type and the selection, so that the decoded result can be judged by its layout
                        if "mcsb" in a or rng.random() < 0.66:
                            a["mcsb"] = 2
                            a["est"] = rng.randint(1, 5)
                            sub = tuple(sorted(set(sub) | {"mcsb", "est"}))
                        elif "est" in a:
                            a["est"] = rng.randint(1, 5)
                    if phs[cls] == "ata":
                        a.update(fetures=rng.randint(0, 3), count=rng.randint(0, 3))
                        if "extra_tl" in a:
                            a["extra_tl"] = rng.randint(0, 3)
                    if "ndob" in a and a["ndob"]:
                        pass
                    data = None
                    if "data" in req:
                        n = bs * a["tl"] if phs[cls] == "out_data" else bs
                        data = cmds.pattern(n, 9)
                    # the device: records, then fills the data-in buffer with a response
                    resp = {}

                    if method == "inquiry" and a.get("evpd"):
                        a["evpd"] = 1
                        pc = rng.choice([0x00, 0x80, 0x83, 0x86, 0xB0, 0xB1, 0xB2, 0xB3])
                        a["page_code"] = pc
                        fmt = "Vpd%02X" % pc
                        if "page_code" not in sub:
                            sub = tuple(sub) + ("page_code",)
                        a.setdefault("alloclen", 255)
                        if "alloclen" not in sub:
                            sub = tuple(sub) + ("alloclen",)
                    elif method == "inquiry":
                        fmt = "InquiryStd"
                        a.pop("page_code", None)
                        sub = tuple(x for x in sub if x != "page_code")

                    def fill(cmd, fmt=fmt, resp=resp):
                        if fmt and not fmt.startswith("#") and len(cmd.datain):
                            for _try in range(30):      # a response that fits the allocation (a cut one may not be decodable)
                                b = datafmt.GEN[fmt](rng, 1) if fmt.startswith("ModeSense") else datafmt.GEN[fmt](rng)
                                if len(b) <= len(cmd.datain):
                                    break
                            b = (b + bytearray(len(cmd.datain)))[:len(cmd.datain)]
                            cmd.datain[:] = b
                            resp["bytes"] = bytes(b)
                        elif len(cmd.datain):
                            cmd.datain[:] = bytes((7 * i + 1) & 0xFF for i in range(len(cmd.datain)))
                    if method in ("readcapacity16", "getlbastatus", "reportpriority", "reporttargetportgroups"):
                        # these commands are found by operation code in the device's table: devices of the other
                        # types ask first (whatever comes of it), the answer for THIS device's set must not change
                        for other in ("smc", "ssc", "mmc", "spc", "sbc"):
                            if other == setname:
                                continue
                            od = RecDevice(ec.spc, None)
                            of = SCSI(od, bs)
                            od.opcodes = getattr(ec, other)
                            try:
                                getattr(of, method)(*[a[n] for n in req if n != "data"])
                            except BaseException:
                                pass
                    dev = RecDevice(ec.spc, None)
                    if rng.random() < 0.3:
                        # the facade served another device before and is re-aimed at this one (s(dev)): block size
                        # and everything else the caller configured stay as they were
                        facade = SCSI(RecDevice(ec.spc, None), bs)
                        facade(dev)
                    else:
                        facade = SCSI(dev, bs)
                    dev.opcodes = table
                    dev.calls = []
                    dev.fill = fill
                    fail = ""
                    if rng.random() < 0.12:
                        # the device takes the command and then fails: the error is the caller's, once
                        fail = rng.choice(["TypeError", "ValueError", "RuntimeError", "OSError", "KeyError"])

                        def failing(cmd, fail=fail):
                            raise {"TypeError": TypeError, "ValueError": ValueError, "RuntimeError": RuntimeError,
                                   "OSError": OSError, "KeyError": KeyError}[fail]("device failure injected by the harness")
                        dev.fill = failing
                    args = [a[n] if n != "data" else (None if a.get("ndob") else bytearray(data)) for n in req]
                    kwargs = {n: a[n] for n in sub}
                    if method in ("atapassthrough12", "atapassthrough16"):
                        kwargs["blocksize"] = bs
                    exc, cmd = "", None
                    try:
                        cmd = getattr(facade, method)(*args, **kwargs)
                    except Exception as ex:
                        exc = type(ex).__name__
                    n_exec = len(dev.calls)
                    c0 = dev.calls[0] if dev.calls else None
                    calls.append({"method": method, "set": setname, "exc": exc, "execs": n_exec, "returned": cmd is not None, "fail": fail,
                                  "same_bufs": bool(c0 and cmd is not None and c0["din_id"] == id(cmd.datain)
                                                    and c0["dout_id"] == id(cmd.dataout) and c0["cmd"] is cmd),
                                  "same_cdb": bool(c0 and cmd is not None and c0["cdb"] == bytes(cmd.cdb)),
                                  "kwargs": sorted(sub)})
                    meta.append((method, setname))
                    ev.case((method, setname, tuple(sorted(sub))))
                    if cmd is None:
                        continue
                    # arguments reach the CDB: judged like a construction with only the passed arguments
                    aa = dict(a)
                    if bs:
                        aa["blocksize"] = bs
                    e = cmds.event(cls, setname, aa, phs[cls], cmd, "", data if data is not None and not a.get("ndob") else None)
                    e["method"] = method
                    cons.append(e)
                    if method == "readcd" and a.get("tl"):
                        # READ CD: the result is judged against the sector layout the ARGUMENTS select (defaults of
                        # arguments that were not passed: the ones of the facade's signature)
                        sig = inspect.signature(getattr(SCSI, "readcd")).parameters
                        par = {k: int(a.get(k, sig[k].default if k in sig and sig[k].default is not inspect.Parameter.empty else 0))
                               for k in ("est", "mcsb", "c2ei", "scsb", "tl", "lba")}
                        unms.append({"ev": "Unmarshal", "fmt": "ReadCd", "bytes": list(cmd.datain), "exc": "", "par": par,
                                     "out": flatten({str(k): v for k, v in cmd.result.items()}) if cmd.result else {"#empty": []},
                                     "method": method, "set": setname})
                    if fmt and not fmt.startswith("#") and "bytes" in resp:
                        f2 = fmt
                        if fmt == "RtpgLen" and False:
                            pass
                        u = {"ev": "Unmarshal", "fmt": f2, "bytes": list(resp["bytes"]), "exc": "",
                             "out": flatten(cmd.result) if cmd.result else {"#empty": []}, "method": method, "set": setname}
                        unms.append(u)
                        # the caller edits the result it got; the same call against a device that answers with the
                        # same bytes must again decode what the device wrote (nothing remembered, nothing shared)
                        if isinstance(cmd.result, dict) and not fail and rng.random() < 0.5:
                            from .c06 import scramble
                            try:
                                scramble(cmd.result)
                            except Exception:
                                pass

                            def refill(c2, b=resp["bytes"]):
                                c2.datain[:] = (bytearray(b) + bytearray(len(c2.datain)))[:len(c2.datain)]
                            dev.fill = refill
                            try:
                                args2 = [a[n] if n != "data" else (None if a.get("ndob") else bytearray(data)) for n in req]
                                cmd2 = getattr(facade, method)(*args2, **kwargs)
                                unms.append(dict(u, out=flatten(cmd2.result) if cmd2.result else {"#empty": []},
                                                 again=True))
                            except Exception as ex:
                                unms.append(dict(u, out={"#empty": []}, exc=type(ex).__name__, again=True))
    # ---- byte-identical device answers, different decode-relevant arguments -------------------------------
    # INQUIRY: the same 96 bytes are standard data for evpd=0 and a Unit Serial Number page for evpd=1
    for setname in ("spc", "sbc", "mmc"):
        for _ in range(4 if chk.quick else 200):
            b = datafmt.vpd(rng, 0x80, datafmt.rb(rng, rng.choice([0, 4, 20])))
            b = (b + datafmt.rb(rng, 96))[:96]
            dev = RecDevice(ec.spc, None)
            facade = SCSI(dev, 0)
            dev.opcodes = getattr(ec, setname)
            dev.calls = []

            def fill96(cmd, b=b):
                cmd.datain[:] = b[:len(cmd.datain)]
            dev.fill = fill96
            order = [("InquiryStd", {}), ("Vpd80", {"evpd": 1, "page_code": 0x80})]
            if rng.random() < 0.5:
                order.reverse()
            for fmt, kw in order + order[:1]:
                u = {"ev": "Unmarshal", "fmt": fmt, "bytes": list(b), "exc": "", "out": {"#empty": []},
                     "method": "inquiry", "set": setname, "again": True}
                try:
                    c = facade.inquiry(alloclen=96, **kw)
                    u["out"] = flatten(c.result) if c.result else {"#empty": []}
                except Exception as ex:
                    u["exc"] = type(ex).__name__
                unms.append(u)
            ev.case(("same-bytes", setname, bytes(b)))
    session(chk)
    from .c13_changer import changer
    changer(chk)
    from .c13_reservations import reservations
    reservations(chk)
    from .c13_modepages import modepages
    modepages(chk)
    from .c13_satdisk import satdisk
    satdisk(chk)
    # ---- TLC judges ---------------------------------------------------------------------------------------
    vs, st = tlc.judge_traces("Trace_Facade", "Trace_Facade.cfg", calls, name="c13trf")
    ev.judged("Trace_Facade", st, len(calls))
    for i, clause, detail in vs:
        e = calls[i]
        chk.violation({"clause": clause, "cls": "", "field": "", "method": e["method"], "set": e["set"],
                       "detail": {"expected": detail, "event": e}, "what": "facade call"},
                      dedup=(clause, e["method"], detail if clause == "AllDocumentedArgumentsAccepted" else ""))
    vs, st = tlc.judge_traces("Trace_Command", "Trace_Command.cfg", cons, name="c13trc")
    ev.judged("Trace_Command", st, len(cons))
    for i, clause, detail in vs:
        e = cons[i]
        if clause in ("WireFormat", "OtherBitsZero", "CdbLength"):
            chk.violation({"clause": "AllArgumentsReachCdb" if clause == "WireFormat" else clause, "cls": e["cls"], "field": detail,
                           "method": e["method"], "set": e["set"], "detail": {"fields": detail, "event": e},
                           "what": "CDB of the command the facade returned"}, dedup=(clause, e["method"], e["set"], detail))
    vs, st = tlc.judge_traces("Trace_Data", "Trace_Data.cfg", unms, name="c13trd")
    ev.judged("Trace_Data", st, len(unms))
    import json
    import re
    for i, clause, detail in vs:
        if clause == "Unjudged":
            continue
        e = unms[i]
        try:
            paths = sorted(json.loads(detail).get("paths", []))
        except Exception:
            paths = []
        leaf = sorted(set(re.sub(r"/\d+", "/*", p) for p in paths))
        if any(p.endswith("/#len") for p in leaf):
            leaf = [p for p in leaf if p.endswith("/#len")][:1]
        for lf in (leaf or [""]):
            chk.violation({"clause": "DecodesWhatDeviceReturned", "cls": "", "field": "", "method": e["method"], "set": e["set"],
                           "fmt": e["fmt"], "path": lf, "detail": {"expected": detail[:800], "bytes": e["bytes"][:64]},
                           "what": "cmd.result vs the data the device wrote"}, dedup=("Decodes", e["method"], e["fmt"], lf))
    ev.sample({"call": calls[len(calls) // 2]})
    ev.cov["rule"] = ("%d facade methods (persistentreservein counted per service action) x every command set that offers "
                      "the command x every subset of the optional keyword arguments (sampled above %d subsets) with a "
                      "recording device that fills the data-in buffer with a generated response; judged: exactly one "
                      "execute, same buffers and CDB (Trace_Facade), passed arguments and defaults in the CDB "
                      "(Trace_Command), cmd.result = parse of what the device wrote (Trace_Data), also for a repeated call after "
                      "the caller edited the first result and for byte-identical answers decoded under different "
                      "arguments (INQUIRY evpd 0 / 1). distinct by (method, "
                      "set, keyword subset)." % (len(METHODS) + 3, 24 if chk.quick else 800))


if __name__ == "__main__":
    main("C13", run)
