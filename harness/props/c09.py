"""C09 - command objects are isolated from one another, in any order or interleaving."""
import itertools
import random

from ..core import cmds, tlc
from ..core.lib import mod
from ..core.runner import main
from ..core.sched import Runner
from ..core.values import num, unnum
from . import cdb_common as cc

CLAUSES = {"Isolation", "ClassDeterminesCodec", "ThreadIsolation", "Deterministic", "SharedArguments"}


def reference_args(cases):
    """one distinctive constructible argument set per class, taken from the spec's cases"""
    best = {}
    for c in cases:
        if not c["ctor"] or c["refuse"]:
            continue
        a = cmds.int_args(c["a"])
        score = sum(1 for v in a.values() if v) * 1000 + sum(bin(v).count("1") for v in a.values() if v < 2 ** 16)
        if c["ph"] in ("in_alloc",) and c["dinlen"] > 70000:
            continue
        if c["cls"] not in best or score > best[c["cls"]][0]:
            best[c["cls"]] = (score, a, c)
    return {k: (v[1], v[2]) for k, v in best.items()}


def alt_args(cases):
    """a second constructible argument set per class, as different from the reference as the cases offer:
    the one with the fewest non-zero arguments (flags off, small values)"""
    worst = {}
    for c in cases:
        if not c["ctor"] or c["refuse"] or (c["ph"] in ("in_alloc",) and c["dinlen"] > 70000):
            continue
        a = cmds.int_args(c["a"])
        score = sum(1 for v in a.values() if v) * 1000 + sum(bin(v).count("1") for v in a.values() if v < 2 ** 16)
        if c["cls"] not in worst or score < worst[c["cls"]][0]:
            worst[c["cls"]] = (score, a, c)
    return {k: (v[1], v[2]) for k, v in worst.items()}


class Ref(object):
    """what a class encodes/decodes in isolation (validated against the spec by TLC)"""

    def __init__(self, name, setname, a, ph, sa, opv):
        self.name, self.set, self.a, self.ph = name, setname, a, ph
        self.K = cmds.klass(name)
        cmd = self.build()
        self.cdb = bytes(cmd.cdb)
        self.dinlen, self.dout = len(cmd.datain), bytes(cmd.dataout)
        self.dec = {k: int(v) for k, v in self.K.unmarshall_cdb(cmd.cdb).items() if isinstance(v, int)}
        self.enc = bytes(self.K.marshall_cdb(dict(self.dec)))

    def build(self):
        if self.ph == "out_list":
            return cmds.benign(self.name)
        cmd, exc, passed = cmds.construct(self.name, self.set, self.a, self.ph)
        if cmd is None:
            raise RuntimeError("reference construction of %s failed: %s" % (self.name, exc))
        return cmd

    def snapshot_event(self, cmd, kind="Snapshot"):
        e = cmds.event(self.name, self.set, self.a if self.ph != "out_list" else {}, self.ph, cmd, "", None)
        e["ev"] = "Construct"
        e["kind"] = kind
        if self.ph in cmds.NEEDS_DATA:
            e["dout_same"] = bytes(cmd.dataout) == self.dout
        return e

    def probe_events(self):
        """decode the reference CDB with this class, re-encode the reference dictionary"""
        out = []
        try:
            dec = {k: int(v) for k, v in self.K.unmarshall_cdb(bytearray(self.cdb)).items() if isinstance(v, int)}
        except Exception as ex:
            dec = {"#raised": 1}
        out.append({"ev": "DecodeBytes", "cls": self.name, "in": list(self.cdb), "out": {k: num(v) for k, v in dec.items()}})
        try:
            enc = bytes(self.K.marshall_cdb(dict(self.dec)))
        except Exception as ex:
            enc = b""
        out.append({"ev": "EncodeDict", "cls": self.name, "d": {k: num(v) for k, v in self.dec.items()}, "out": list(enc)})
        return out, dec, enc


def decode_determinism(chk):
    ev = chk.ev
    # decoding data is a function of (class, arguments, bytes): the same call gives the same outcome - the same
    # values or the same refusal - first, again, and after every other decoder has run (READ CD with every
    # combination of expected sector type and main channel selection, accepted or not; every response decoder)
    from ..core import datafmt
    drng0 = random.Random(chk.seed + 3)
    RC = cmds.klass("ReadCd")
    sector = bytearray(drng0.getrandbits(8) for _ in range(2646))
    calls = []
    for est in range(6):
        for mcsb in range(32):
            calls.append(("ReadCd est=%d mcsb=%02x" % (est, mcsb), "ReadCd",
                          lambda est=est, mcsb=mcsb: RC.unmarshall_datain(bytearray(sector), lba=3, tl=1, est=est, mcsb=mcsb, c2ei=0, scsb=0)))
    for fmt in sorted(datafmt.GEN):
        dec_ = datafmt.decoder(fmt)
        for _ in range(2):
            b0 = bytes(datafmt.GEN[fmt](drng0, 1) if fmt.startswith("ModeSense") else datafmt.GEN[fmt](drng0))
            calls.append((fmt, fmt, lambda dec_=dec_, b0=b0: dec_(bytearray(b0))))
            if len(b0) > 6:
                calls.append((fmt + " (cut)", fmt, lambda dec_=dec_, b0=b0: dec_(bytearray(b0[:len(b0) // 2]))))

    def outcome(fn):
        try:
            return "value " + repr(cc_norm(fn()))[:4000]
        except Exception as ex:
            return "raised " + type(ex).__name__

    def cc_norm(o):
        if isinstance(o, dict):
            return sorted((str(k), cc_norm(v)) for k, v in o.items())
        if isinstance(o, (list, tuple)):
            return [cc_norm(v) for v in o]
        if isinstance(o, (bytes, bytearray)):
            return bytes(o)
        return o
    # the reference outcome of every call is taken in a process of its own, forked now, in which that call is the
    # first thing the decoders ever do
    import hashlib
    import os as _os

    def pristine(fn):
        r_, w_ = _os.pipe()
        pid = _os.fork()
        if pid == 0:
            try:
                _os.close(r_)
                _os.write(w_, hashlib.sha1(outcome(fn).encode("utf-8", "replace")).hexdigest().encode())
            finally:
                _os._exit(0)
        _os.close(w_)
        got = b""
        while True:
            chunk = _os.read(r_, 64)
            if not chunk:
                break
            got += chunk
        _os.close(r_)
        _os.waitpid(pid, 0)
        return got.decode()
    first = [pristine(fn) for _, _, fn in calls]
    for order in (list(range(len(calls))), list(reversed(range(len(calls))))):
        for k in order:
            again = outcome(calls[k][2])
            ev.case(("decode-again", calls[k][0]))
            if hashlib.sha1(again.encode("utf-8", "replace")).hexdigest() != first[k]:
                chk.violation({"clause": "Deterministic", "cls": calls[k][1], "other": "", "field": "",
                               "detail": {"call": calls[k][0], "later": again[:300]},
                               "what": "the same decode call gives another outcome than in a process where it comes first"},
                              dedup=("Deterministic", "decode", calls[k][1]))



def run(chk, replay=None):
    ev = chk.ev
    ev.assumptions += [
        "yield points of the thread scheduler are the 'line' trace events of CPython inside <repo>/pyscsi; exactly one "
        "thread runs at a time (no logging race)",
        "results are compared through the public API only (cmd.cdb, buffers, Cls.unmarshall_cdb / marshall_cdb)",
    ]
    if replay is not None:
        chk.only(replay, keys=("clause", "cls", "other"))
    decode_determinism(chk)       # first of all: the first pass must be the first use of the decoders in this process
    cases = cc.spec_cases(chk, "c09mc")
    refargs = reference_args(cases)
    sets = {c["cls"]: sorted(c["sets"]) for c in cases}
    phs = {c["cls"]: c["ph"] for c in cases}
    refs = {}
    for name in sorted(sets):
        s = [x for x in sets[name] if cmds.opcode(name, x) is not None][0]
        try:
            if phs[name] == "out_list":
                refs[name] = Ref(name, s, {}, "out_list", None, None)
            else:
                refs[name] = Ref(name, s, refargs[name][0], phs[name], None, None)
        except Exception as ex:
            ev.cov.setdefault("classes_not_instantiable", []).append("%s: %s" % (name, ex))
    names = sorted(refs)
    # the same class with other arguments is "another command" too
    alts = alt_args(cases)
    for name in list(names):
        if phs[name] != "out_list" and name in alts and alts[name][0] != refs[name].a:
            try:
                refs[name + "#alt"] = Ref(name, refs[name].set, alts[name][0], phs[name], None, None)
            except Exception:
                pass
    events = []          # distinct observations, judged by TLC
    seen = set()
    meta = []

    def note(e, clause, cls, other):
        key = repr(sorted((k, str(v)) for k, v in e.items()))
        if key in seen:
            return
        seen.add(key)
        events.append(e)
        meta.append((clause, cls, other))

    for n in names:
        # repeating a marshalling call on one object with equal inputs yields equal bytes
        r = refs[n]
        try:
            obj = r.build()
            b1 = bytes(obj.build_cdb(**dict(r.dec)))
            b2 = bytes(obj.build_cdb(**dict(r.dec)))
            b3 = bytes(obj.build_cdb(**dict(r.dec)))
            ok = b1 == b2 == b3 == r.enc
        except Exception as ex:
            ok, b1, b2 = False, repr(ex).encode(), b""
        ev.case(("rebuild", n))
        if not ok:
            note({"ev": "EncodeDict", "cls": n, "d": {k: num(v) for k, v in r.dec.items()}, "out": list(b2)}, "Deterministic", n, "")
            chk.violation({"clause": "Deterministic", "cls": n, "other": "", "field": "",
                           "detail": {"first": list(b1), "second": list(b2), "isolated": list(r.enc)},
                           "what": "cmd.build_cdb(**fields) repeated on one object"}, dedup=("Deterministic", n))
    for n in names:                      # the references themselves must be what the spec says
        r = refs[n]
        note(r.snapshot_event(r.build(), "Reference"), "Reference", n, "")
        for e in r.probe_events()[0]:
            note(e, "Reference", n, "")
    nobs = 0

    def check_obj(r, cmd, other, clause="Isolation"):
        nonlocal_n[0] += 1
        if bytes(cmd.cdb) != r.cdb or len(cmd.datain) != r.dinlen or bytes(cmd.dataout) != r.dout:
            note(r.snapshot_event(cmd), clause, r.name, other)
            chk.violation({"clause": clause, "cls": r.name, "other": other, "field": "",
                           "detail": {"cdb_before": list(r.cdb), "cdb_now": list(cmd.cdb)}, "what": "object changed"},
                          dedup=(clause, r.name, other))

    def check_probe(r, other, clause="ClassDeterminesCodec"):
        nonlocal_n[0] += 1
        evs, dec, enc = r.probe_events()
        if dec != r.dec or enc != r.enc:
            for e in evs:
                note(e, clause, r.name, other)
            bad = sorted(k for k in set(dec) | set(r.dec) if dec.get(k) != r.dec.get(k))
            chk.violation({"clause": clause, "cls": r.name, "other": other, "field": ",".join(bad)[:80],
                           "detail": {"decoded": dec, "isolated": r.dec, "encoded": list(enc), "isolated_bytes": list(r.enc)},
                           "what": "decode/encode with class %s after touching %s" % (r.name, other)},
                          dedup=(clause, r.name, other))
    nonlocal_n = [0]

    # ---- sequential: behaviours of Command.tla instantiated with real classes ----------------
    r2 = tlc.run("Command", "MC_Command.cfg", workers=4, coverage=True, name="c09seq")
    if not r2.ok:
        raise tlc.TLCFailure("Command.tla violated %s" % r2.violated)
    ev.tlc("Command/MC_Command.cfg", r2)
    seqs2 = [v for t, v in r2.prints if t == "SEQ"]
    r3 = tlc.run("Command", "MC_Command3.cfg", workers=8, coverage=True, name="c09seq3")
    ev.tlc("Command/MC_Command3.cfg", r3)
    seqs3 = [v for t, v in r3.prints if t == "SEQ"]

    def play(seq, assign):
        live = {}
        used = set()
        for act, sl, role in seq:
            r = refs[assign[role]]
            if act == "construct":
                live[sl] = (r, r.build())
                used.discard(sl)
            elif act == "discard":
                live.pop(sl, None)
            elif act == "use":
                # a transport fills / grows this object's buffers in place; the object itself is
                # no longer compared with its reference, every other object still is
                cmd = live[sl][1]
                for buf in (cmd.datain, cmd.dataout):
                    if isinstance(buf, bytearray):
                        buf[:] = b"\xA5" * len(buf)
                        buf.extend(b"\x5A\x5A\x5A")
                used.add(sl)
            else:
                check_probe(r, "+".join(sorted(set(assign.values()) - {r.name})) or r.name)
            for sl2, (rr, cmd) in list(live.items()):
                if sl2 in used:
                    continue
                check_obj(rr, cmd, "+".join(sorted(set(assign.values()) - {rr.name})) or rr.name)

    canon = [s for s in seqs2 if [x[0] for x in s] in (["construct", "construct", "probe"],
                                                         ["construct", "construct", "discard", "probe"],
                                                         ["construct", "construct", "probe", "discard"],
                                                         ["construct", "construct", "use", "probe"],
                                                         ["construct", "use", "construct", "probe"])]
    for a, b in itertools.product(names, names):         # all ordered pairs
        for s in canon:
            play(s, {"A": a, "B": b})
        ev.case(("pair", a, b))
    for a in names:                                      # a class and itself with other arguments, both orders
        if a + "#alt" in refs:
            for s in canon:
                play(s, {"A": a, "B": a + "#alt"})
                play(s, {"A": a + "#alt", "B": a})
            ev.case(("pair", a, a + "#alt"))
    fam = [n for n in ("TestUnitReady", "Inquiry", "Read10", "Write16", "ReportLuns", "ATAPassThrough16",
                       "PersistentReserveOut", "ExtendedCopy4", "ReadCd", "ModeSense10") if n in refs]
    rng = random.Random(chk.seed)
    for a, b in itertools.permutations(fam, 2):          # every behaviour on representative pairs
        for s in (seqs2 if not chk.quick else rng.sample(seqs2, 120)):
            play(s, {"A": a, "B": b})
    trip = list(itertools.permutations(fam[:6], 3))
    for a, b, c in (trip if not chk.quick else rng.sample(trip, 40)):
        for s in rng.sample(seqs3, 60 if chk.quick else 400):
            play(s, {"A": a, "B": b, "C": c})
        ev.case(("triple", a, b, c))
    ev.replayed(nonlocal_n[0])
    ev.sample({"sequence": seqs2[7], "roles": {"A": fam[2], "B": fam[3]}})

    # ---- a REFUSED construction is "creating another command" too: whatever it set up before it was refused must be
    # gone - every class encodes, decodes and builds afterwards as it does in isolation
    from .c17 import request as refused_request
    sbc_ = mod("pyscsi.pyscsi.scsi_enum_command").sbc
    K = cmds.klass
    refusals = [("ATAPassThrough16 EXTEND=0 without block size", lambda: K("ATAPassThrough16")(sbc_.ATA_PASS_THROUGH_16, 4, 2, 1, 1, 1, 0, 0x1234, 0x0102, 5, 0x20, blocksize=0, extend=0)),
                ("ATAPassThrough16 EXTEND=1 without block size", lambda: K("ATAPassThrough16")(sbc_.ATA_PASS_THROUGH_16, 4, 2, 1, 1, 1, 0, 0x1234, 0x0102, 5, 0x24, blocksize=0, extend=1)),
                ("ATAPassThrough12 without block size", lambda: K("ATAPassThrough12")(sbc_.ATA_PASS_THROUGH_12, 4, 2, 1, 1, 1, 0, 0x12, 2, 5, 0x20, blocksize=0)),
                ("Read10 without block size", lambda: K("Read10")(sbc_.READ_10, 0, 7, 2)),
                ("Read16 without block size", lambda: K("Read16")(sbc_.READ_16, 0, 2 ** 40, 2)),
                ("Write12 without block size", lambda: K("Write12")(sbc_.WRITE_12, 0, 7, 1, bytearray(8))),
                ("WriteSame16 without block size", lambda: K("WriteSame16")(sbc_.WRITE_SAME_16, 0, 7, 1, bytearray(8))),
                ("TestUnitReady with a vendor operation code", lambda: K("TestUnitReady")(mod("pyscsi.pyscsi.scsi_opcode").OpCode("X", 0xC5, {})))]
    for k_, v_ in (("xcopy_cscd_key", 1), ("xcopy_seg_key", 1), ("xcopy_cscd_type", 0xD0), ("xcopy_seg_type", 0x30),
                   ("tid_isid_without_format", 0), ("tid_format_without_isid", 0)):
        refusals.append(("%s %s" % (k_, v_), lambda k_=k_, v_=v_: (_ for _ in ()).throw(ValueError()) if refused_request(k_, v_)["exc"] else None))
    for label, attempt in refusals:
        try:
            attempt()
            continue              # not refused here: C17's concern, nothing to learn for isolation
        except Exception:
            pass
        ev.case(("refused", label))
        for n in names:
            r = refs[n]
            check_probe(r, "refused: " + label)
            try:
                check_obj(r, r.build(), "refused: " + label)
            except Exception as ex:
                chk.violation({"clause": "Isolation", "cls": n, "other": "refused: " + label, "field": "",
                               "detail": {"raised": repr(ex)}, "what": "construction after a refused one"},
                              dedup=("Isolation", n, "refused"))

    # ---- the SAME bytes decoded by two classes: what B reads in them is B's layout applied to the bytes, whoever
    # decoded those bytes before (the expected dictionary comes from TLC: T10Cdb!DictDecode(B, bytes))
    for a_ in names:
        ra = refs[a_]
        for b_ in names:
            rb = refs[b_]
            if a_ == b_ or len(ra.cdb) != len(rb.cdb):
                continue
            try:
                ra.K.unmarshall_cdb(bytearray(ra.cdb))
                out = {k: int(v) for k, v in rb.K.unmarshall_cdb(bytearray(ra.cdb)).items() if isinstance(v, int)}
            except Exception as ex:
                out = {"#raised": 1}
            nonlocal_n[0] += 1
            note({"ev": "DecodeBytes", "cls": b_, "in": list(ra.cdb), "out": {k: num(v) for k, v in out.items()}},
                 "ClassDeterminesCodec", b_, a_)
        ev.case(("same-bytes", a_))

    # ---- the parameter-data codecs of other commands as the "other command" --------------------------------
    # A value cache shared between commands only shows when the other command handles EQUAL values, so
    # the disturbing calls are fed the victims' own field values: every decoded sample response of every
    # format with a build direction is re-built with one numeric leaf at a time set to each such value.
    import copy
    from ..core import datafmt
    from . import c06
    vals = sorted({v for r in refs.values() for v in list(r.a.values()) + list(r.dec.values())
                   if isinstance(v, int) and v > 1})
    if chk.quick:
        vals = [v for v in vals if v > 255][:24] + vals[:6]

    def leaves(o):
        if isinstance(o, dict):
            for k, v in o.items():
                if isinstance(v, int) and not isinstance(v, bool):
                    yield o, k
                else:
                    for x in leaves(v):
                        yield x
        elif isinstance(o, list):
            for v in o:
                for x in leaves(v):
                    yield x
    ndist = 0
    drng = random.Random(chk.seed + 9)
    Bld = c06.builders()
    for fmt in sorted(Bld):
        dec = datafmt.decoder(fmt)
        for _ in range(6 if chk.quick else 12):
            b0 = datafmt.GEN[fmt](drng, 1) if fmt.startswith("ModeSense") else datafmt.GEN[fmt](drng)
            try:
                d = dec(bytearray(b0))
            except Exception:
                continue
            # the same argument objects handed to the builder twice (the caller keeps what it parsed): same bytes
            try:
                live = copy.deepcopy(d)
                if bytes(Bld[fmt].marshall_datain(live)) != bytes(Bld[fmt].marshall_datain(live)):
                    chk.violation({"clause": "SharedArguments", "cls": fmt, "other": "", "field": "",
                                   "detail": {}, "what": "marshall_datain twice from the same dictionary objects"},
                                  dedup=("SharedArguments", fmt))
            except Exception:
                pass
            for cont, key in list(leaves(d)):
                old = cont[key]
                for v in vals:
                    cont[key] = v
                    ndist += 1
                    try:
                        Bld[fmt].marshall_datain(copy.deepcopy(d))
                    except Exception:
                        pass            # a refused edit: not this property's concern
                cont[key] = old
    FS = mod("pyscsi.pyscsi.scsi_cdb_persistentreservein").PersistentReserveInReadFullStatus
    for v in vals:
        for t in ({"protocol_id": 0, "n_port_name": v}, {"protocol_id": 6, "sas_address": v},
                  {"protocol_id": 4, "initiator_port_identifier": v}):
            try:
                FS.marshall_transport_id(dict(t))
            except Exception:
                pass
    for n in names:
        r = refs[n]
        try:
            check_obj(r, r.build(), "parameter-data codecs")
            check_probe(r, "parameter-data codecs")
        except Exception as ex:
            chk.violation({"clause": "Isolation", "cls": n, "other": "parameter-data codecs", "field": "",
                           "detail": {"raised": repr(ex)}, "what": "construction after other commands' data codecs ran"},
                          dedup=("Isolation", n, "parameter-data codecs"))
    ev.case(("data-disturbers", ndist))
    ev.cov["data_disturbers"] = {"marshal_calls": ndist, "values": len(vals)}

    # ---- shared / mutable arguments --------------------------------------------------------------
    ec = mod("pyscsi.pyscsi.scsi_enum_command")
    from .c17 import _cscd, _seg
    # (descriptor type codes also by the names of the library's tables: the library resolves them and may write
    # what it resolved into the caller's dictionary, which must not change the next command)
    for std, nm, segcode in [(a_, b_, c_) for a_, b_ in ((4, "ExtendedCopy4"), (5, "ExtendedCopy5"))
                             for c_ in (0x02, "block -> stream", "Copy from stream device to block device", 0x0D)]:
        if nm not in refs:
            continue
        K = cmds.klass(nm)
        tl, sl, inline = [_cscd(std), _cscd(std)], [_seg(std, segcode), _seg(std)], bytearray(b"\x01\x02\x03")
        try:
            kw = dict(segment_descriptor_list=sl, inline_data=inline)
            kw["target_descriptor_list" if std == 4 else "cscd_descriptor_list"] = tl
            c1 = K(ec.spc.EXTENDED_COPY, **kw)
            d1 = bytes(c1.dataout)
            c2 = K(ec.spc.EXTENDED_COPY, **kw)
            c3 = K(ec.spc.EXTENDED_COPY)                   # defaults (mutable default arguments)
            c4 = K(ec.spc.EXTENDED_COPY)
            ok = bytes(c2.dataout) == d1 and bytes(c1.dataout) == d1 and bytes(c3.dataout) == bytes(c4.dataout) \
                and bytes(c1.cdb) == bytes(c2.cdb)
        except Exception as ex:
            ok = "raised %r" % ex
        ev.case(("shared", nm, str(segcode)))
        if ok is not True:
            chk.violation({"clause": "SharedArguments", "cls": nm, "other": "", "field": "",
                           "detail": {"result": str(ok), "segment type given as": str(segcode)},
                           "what": "same list/dict objects passed to two constructions"}, dedup=("SharedArguments", nm))
    # one caller buffer handed to several write commands (a write and its zero-length "probe", a retry with another
    # CDB size): each command's data-out stays what it was given, whatever the other command's transfer length is
    WR = [("Write10", "WRITE_10"), ("Write12", "WRITE_12"), ("Write16", "WRITE_16"), ("WriteSame10", "WRITE_SAME_10"),
          ("WriteSame16", "WRITE_SAME_16")]
    for (a, aop), (b, bop) in itertools.product(WR, WR):
        for n1, n2 in ((1, 0), (0, 1), (1, 2), (2, 1), (0, 0)):
            buf = bytearray(cmds.pattern(512, 11))
            want = bytes(buf)
            try:
                c1 = cmds.klass(a)(getattr(ec.sbc, aop), 512, 5, n1, buf)
                cdb1 = bytes(c1.cdb)
                c2 = cmds.klass(b)(getattr(ec.sbc, bop), 512, 9, n2, buf)
                ok = bytes(c1.dataout) == want and bytes(c2.dataout) == want and bytes(buf) == want and bytes(c1.cdb) == cdb1
                what = {"first_dataout_len": len(c1.dataout), "second_dataout_len": len(c2.dataout), "buffer_len": len(buf)}
            except Exception as ex:
                ok, what = False, {"raised": repr(ex)}
            ev.case(("shared-buffer", a, b, n1, n2))
            if not ok:
                chk.violation({"clause": "SharedArguments", "cls": a, "other": b, "field": "",
                               "detail": dict(what, first_count=n1, second_count=n2),
                               "what": "the same data buffer passed to two write commands"},
                              dedup=("SharedArguments", "buffer", a if n1 == 0 else b))
    if "PersistentReserveOut" in refs:
        K = cmds.klass("PersistentReserveOut")
        op = ec.spc.PERSISTENT_RESERVE_OUT
        t = {"protocol_id": 5, "iscsi_name": "iqn.2001-04.com.example:x"}
        kw = dict(reservation_key=7, service_action_reservation_key=9, transport_id=t, relative_target_port_id=2)
        c1 = K(op, op.serviceaction.REGISTER_AND_MOVE, **kw)
        d1 = bytes(c1.dataout)
        c2 = K(op, op.serviceaction.REGISTER_AND_MOVE, **kw)
        if bytes(c2.dataout) != d1 or bytes(c1.dataout) != d1 or "transportid_length" in kw:
            chk.violation({"clause": "SharedArguments", "cls": "PersistentReserveOut", "other": "", "field": "",
                           "detail": {}, "what": "caller's dictionary changed or second construction differs"})

    # ---- threads: schedules from Sched.tla -----------------------------------------------------------
    def program(r):
        def p():
            cmd = r.build()
            dec = {k: int(v) for k, v in r.K.unmarshall_cdb(cmd.cdb).items() if isinstance(v, int)}
            enc = bytes(r.K.marshall_cdb(dict(dec)))
            enc2 = bytes(r.K.marshall_cdb({k: v for k, v in dec.items() if k != "opcode"}))
            return (bytes(cmd.cdb), len(cmd.datain), bytes(cmd.dataout), tuple(sorted(dec.items())), enc, enc2)
        return p
    pairs = [("Read10", "Write16"), ("Inquiry", "Read16"), ("TestUnitReady", "ReportLuns"),
             ("ATAPassThrough16", "ModeSense6")]
    if not chk.quick:
        pairs += [("Write10", "Read10"), ("ExchangeMedium", "WriteSame16")]
    if not chk.quick:
        pairs += [("ReadCd", "Read12"), ("PersistentReserveOut", "ModeSense10")]
    nsched = 0
    # two threads, each with its OWN command, executing on ONE ISCSIDevice (over the stand-in binding; the target answers
    # TEST UNIT READY with CHECK CONDITION and INQUIRY with GOOD): each thread sees the completion of its own command
    from ..core import bindings as _b
    _fs, _fi = _b.install(True, True)
    _SENSE = bytes([0x70, 0, 6, 0, 0, 0, 0, 10, 0, 0, 0, 0, 0x29, 0, 0, 0, 0, 0])
    _fi.reset(lambda c_, o_, i_: (2, _SENSE) if c_[0] == 0 else (0, None))
    _dev = mod("pyscsi.pyiscsi.iscsi_device").ISCSIDevice("iscsi://h/iqn.shared/0", "iqn.i")

    def on_device(name, *args):
        def p():
            cmd = cmds.klass(name)(getattr(_dev.opcodes, {"TestUnitReady": "TEST_UNIT_READY", "Inquiry": "INQUIRY"}[name]), *args)
            try:
                _dev.execute(cmd)
                out = "ok"
            except Exception as ex:
                out = type(ex).__name__
            return (out, bytes(cmd.cdb), len(cmd.datain))
        return p
    jobs = [(a, b, program(refs[a]), program(refs[b])) for a, b in pairs if a in refs and b in refs]
    jobs.append(("TestUnitReady on a shared ISCSIDevice", "Inquiry on a shared ISCSIDevice", on_device("TestUnitReady"), on_device("Inquiry")))
    for a, b, prog_a, prog_b in jobs:
        run_ = Runner([prog_a, prog_b])
        (n1, iso1), (n2, iso2) = run_.measure(0), run_.measure(1)
        P = "1" if chk.quick else "2"
        grid = "3" if chk.quick else "6"
        rs = tlc.run("MC_Sched", "MC_Sched.cfg", workers=8, timeout=1200, name="c09sched",
                     env={"N1": str(n1), "N2": str(n2), "P": P, "GRID": grid})
        if not rs.ok:
            raise tlc.TLCFailure("Sched.tla violated %s" % rs.violated)
        ev.tlc("Sched N=<<%d,%d>> P=%s grid=%s (%s||%s)" % (n1, n2, P, grid, a, b), rs)
        scheds = [v for t, v in rs.prints if t == "SCHED"]
        bad = 0
        for sg, res in zip(scheds, run_.run_many(scheds)):
            nsched += 1
            for t, (iso, rname) in enumerate(((iso1, a), (iso2, b))):
                if res[t] != iso:
                    bad += 1
                    chk.violation({"clause": "ThreadIsolation", "cls": rname, "other": (b if t == 0 else a), "field": "",
                                   "detail": {"schedule": sg, "thread": t + 1,
                                              "result": repr(res[t])[:300], "isolated": repr(iso)[:300]},
                                   "what": "thread result differs from its isolated result"},
                                  dedup=("ThreadIsolation", rname, (b if t == 0 else a)))
        ev.case(("threads", a, b, len(scheds)))
        ev.cov.setdefault("schedules", []).append({"pair": [a, b], "yield_points": [n1, n2], "schedules": len(scheds),
                                                   "broken": bad})
    # the same in pristine processes: library imported but never used before the threads start
    import json as _json
    import os as _os
    import subprocess as _sp
    import sys as _sys
    from ..core.runner import VERIF
    # same class in both threads too: per-class first-use state is shared exactly there
    # first use: what a class encodes / decodes before any instance of it exists, and after one was created
    fu = [[n, refs[n].a, refs[n].ph, refs[n].set, list(refs[n].cdb), refs[n].dec] for n in names]
    pfu = _sp.run([_sys.executable, _os.path.join(VERIF, "harness", "props", "c09_worker.py"), "-", "-", _json.dumps(fu), "firstuse"],
                  stdout=_sp.PIPE, cwd=VERIF, timeout=600)
    for n, res in zip(names, _json.loads(pfu.stdout.decode())):
        ev.case(("firstuse", n))
        if res is None:
            raise tlc.TLCFailure("first-use worker died for %s" % n)
        before, after, exc = res
        want_ = [list(refs[n].enc), None, sorted(refs[n].dec.items())]
        if before != after or before[0] != want_[0] or [list(x) for x in before[2]] != [list(x) for x in want_[2]]:
            chk.violation({"clause": "ClassDeterminesCodec", "cls": n, "other": n, "field": "",
                           "detail": {"before_any_instance": before, "after_creating_one": after,
                                      "isolated_encoding": want_[0], "isolated_decoding": want_[2]},
                           "what": "what the class encodes/decodes before any instance exists vs after creating one (pristine process)"},
                          dedup=("ClassDeterminesCodec", n, "firstuse"))
    fresh_pairs = [("Read16", "SynchronizeCache16"), ("Read10", "Write16"), ("Read16", "Read16")] if chk.quick else \
        [("Read16", "SynchronizeCache16"), ("Read10", "Write16"), ("Read16", "Read16"), ("Inquiry", "ReportLuns"),
         ("ATAPassThrough16", "ModeSense6"), ("Write16", "Write16"), ("Inquiry", "Inquiry")]
    for a, b in fresh_pairs:
        if a not in refs or b not in refs:
            continue
        ra, rb = refs[a], refs[b]
        cfgj = _json.dumps([ra.a, ra.ph, ra.set, rb.a, rb.ph, rb.set])
        wk = [_sys.executable, _os.path.join(VERIF, "harness", "props", "c09_worker.py"), a, b, cfgj]
        m = _json.loads(_sp.run(wk + ["measure"], stdout=_sp.PIPE, cwd=VERIF, timeout=300).stdout.decode())
        n1, n2 = m[0][0], m[1][0]
        rs = tlc.run("MC_Sched", "MC_Sched.cfg", workers=8, timeout=1200, name="c09schedf",
                     env={"N1": str(n1), "N2": str(n2), "P": "1", "GRID": "2" if chk.quick else "1"})
        ev.tlc("Sched (pristine processes) N=<<%d,%d>> P=1 (%s||%s)" % (n1, n2, a, b), rs)
        scheds = [v for t, v in rs.prints if t == "SCHED"]
        p = _sp.run(wk + ["run"], input=_json.dumps(scheds).encode(), stdout=_sp.PIPE, cwd=VERIF, timeout=1200)
        o = _json.loads(p.stdout.decode())
        bad = 0
        if o["iso"] != o["iso2"]:
            chk.violation({"clause": "ThreadIsolation", "cls": a, "other": b, "field": "",
                           "detail": {"isolated A-first": o["iso"], "isolated B-first": o["iso2"]},
                           "what": "isolated result depends on which class ran first"})
        for sg, res in zip(scheds, o["results"]):
            nsched += 1
            for t in (0, 1):
                if res[t] != o["iso"][t]:
                    bad += 1
                    chk.violation({"clause": "ThreadIsolation", "cls": (a, b)[t], "other": (b, a)[t], "field": "",
                                   "detail": {"schedule": sg, "thread": t + 1, "result": repr(res[t])[:300],
                                              "isolated": repr(o["iso"][t])[:300], "pristine_process": True},
                                   "what": "thread result differs from its isolated result (pristine process)"},
                                  dedup=("ThreadIsolation", (a, b)[t], (b, a)[t], "fresh"))
        ev.case(("threads-pristine", a, b, len(scheds)))
        ev.cov.setdefault("schedules", []).append({"pair": [a, b], "pristine_process": True, "yield_points": [n1, n2],
                                                   "schedules": len(scheds), "broken": bad})
    ev.replayed(nsched)
    if pairs:
        ev.sample({"schedule": scheds[len(scheds) // 2], "threads": list(pairs[-1])})

    # ---- the distinct observations go to TLC --------------------------------------------------------
    vs, st = tlc.judge_traces("Trace_Command", "Trace_Command.cfg", events, name="c09tr")
    ev.judged("Trace_Command", st, len(events))
    for i, clause, detail in vs:
        cl, cls, other = meta[i]
        if cl == "Reference":
            # the isolated behaviour itself disagrees with the spec: C01/C02 territory, reported there
            continue
        chk.violation({"clause": cl, "cls": cls, "other": other, "field": "", "detail": {"spec": clause, "info": detail,
                                                                                        "event": events[i]},
                       "what": "TLC verdict on observation"}, dedup=(cl, cls, other))
    ev.cov["rule"] = ("sequential: behaviours of Command.tla (construct/probe/discard over 2-3 live objects) instantiated "
                      "with all %d x %d ordered class pairs (canonical sequences), every behaviour on representative "
                      "pairs, sampled triples; after every action every live object and the codec of the probed class "
                      "are compared with their isolated reference (references validated by TLC). threads: every schedule "
                      "of Sched.tla with <= P preemptions at line granularity. distinct by pair/triple/schedule set."
                      % (len(names), len(names)))


if __name__ == "__main__":
    main("C09", run)
