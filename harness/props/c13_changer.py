"""C13 (SMC part) - behaviours of Changer.tla replayed on the real facade against a media changer that decodes the
CDBs by the SMC-3 layouts (spec -> code)."""
import os
import random

from ..core import tlc
from ..core.lib import mod

MT, S1, S2, IE, DT = 0x0001, 0x0400, 0x0401, 0x0010, 0x0100
ORDER = [MT, S1, S2, IE, DT]
TYPE = {MT: 1, S1: 2, S2: 2, IE: 3, DT: 4}


class ChangerTarget(object):
    """the changer of Changer.tla.  It knows nothing of the library: CDBs are decoded at the byte and bit positions
    SMC-3 gives (MOVE MEDIUM A5h, EXCHANGE MEDIUM A6h, POSITION TO ELEMENT 2Bh, INITIALIZE ELEMENT STATUS 07h,
    ... WITH RANGE 37h, OPEN/CLOSE IMPORT/EXPORT ELEMENT 1Bh, PREVENT ALLOW MEDIUM REMOVAL 1Eh, READ ELEMENT STATUS
    B8h), element status is built by the page / descriptor layout of SMC-3 6.12"""

    def __init__(self):
        self.at = {MT: 0, S1: 1, S2: 2, IE: 0, DT: 0}
        self.src = dict.fromkeys(ORDER, 0)
        self.byop = self.ieopen = self.prevent = False
        self.pos = 0
        self.inited = set(ORDER)
        self.seen = 0
        self.last = None            # (command, arguments recovered from the CDB)
        self.odd = []               # anything a conformant initiator would not have sent

    @staticmethod
    def cc(asc, ascq):
        return 2, bytes([0x70, 0, 5, 0, 0, 0, 0, 10, 0, 0, 0, 0, asc, ascq, 0, 0, 0, 0])

    def src_after(self, s):
        return s if TYPE[s] == 2 else self.src[s]

    def state(self):
        return {"at": [self.at[e] for e in ORDER], "src": [self.src[e] for e in ORDER], "byop": self.byop,
                "ieopen": self.ieopen, "prevent": self.prevent, "pos": self.pos,
                "inited": [1 if e in self.inited else 0 for e in ORDER]}

    def report(self, t, start, num, voltag):
        sel = [e for e in ORDER if (t == 0 or TYPE[e] == t) and e >= start][:num]
        pages = bytearray()
        dl = 12 + (36 if voltag else 0)
        for ty in (1, 2, 3, 4):
            es = [e for e in sel if TYPE[e] == ty]
            if not es:
                continue
            body = bytearray()
            for e in es:
                d = bytearray(dl)
                d[0:2] = e.to_bytes(2, "big")
                full = self.at[e] != 0
                flags = (1 if full else 0) | (0 if e in self.inited else 4)
                if ty != 1:
                    flags |= (0 if (ty == 3 and self.ieopen) else 1) << 3          # ACCESS
                if ty == 3:
                    flags |= 0x30                                                   # INENAB, EXENAB
                    if self.byop and full:
                        flags |= 2                                                  # IMPEXP
                d[2] = flags
                if e not in self.inited:
                    d[4], d[5] = 0x83, 0x01
                if self.src[e]:
                    d[9] |= 0x80
                    d[10:12] = self.src[e].to_bytes(2, "big")
                if voltag and full:
                    d[12:44] = (b"VOL00%d" % self.at[e]).ljust(32, b" ")
                    d[46:48] = self.at[e].to_bytes(2, "big")
                body += d
            pages += bytes([ty, 0x80 if voltag else 0, dl >> 8, dl & 0xFF, 0]) + len(body).to_bytes(3, "big") + body
        hdr = (min(sel) if sel else 0).to_bytes(2, "big") + len(sel).to_bytes(2, "big") + b"\0" + len(pages).to_bytes(3, "big")
        return hdr + pages

    def __call__(self, cdb, dataout, datain):
        self.seen += 1
        cdb = bytes(cdb)
        op = cdb[0]

        def be(o, n=2):
            return int.from_bytes(cdb[o:o + n], "big")
        want_len = {0x12: 6, 0x07: 6, 0x1B: 6, 0x1E: 6, 0x2B: 10, 0x37: 10, 0xA5: 12, 0xA6: 12, 0xB8: 12}.get(op)
        if want_len is None or len(cdb) != want_len:
            self.odd.append(("cdb", list(cdb)))
            return self.cc(0x20, 0x00)
        if op == 0x12:
            d = bytearray(96)
            d[0], d[2], d[4] = 8, 6, 91
            d[8:16] = b"VERIFCHG"
            datain[:len(d)] = d[:len(datain)]
            return 0, None
        if op == 0xA5:
            xfer, s, d, inv = be(2), be(4), be(6), cdb[10] & 1
            self.last = ("move", [xfer, s, d, inv])
            if xfer != MT or s not in TYPE or d not in TYPE:
                return self.cc(0x21, 0x01)
            if self.at[s] == 0:
                return self.cc(0x3B, 0x0E)
            if s != d and self.at[d] != 0:
                return self.cc(0x3B, 0x0D)
            if s != d:
                self.src[d], self.src[s] = self.src_after(s), 0
                self.at[d], self.at[s] = self.at[s], 0
                if IE in (s, d):
                    self.byop = False
            self.pos = d
            return 0, None
        if op == 0xA6:
            xfer, s, d1, d2 = be(2), be(4), be(6), be(8)
            self.last = ("exchange", [xfer, s, d1, d2])
            if xfer != MT or s not in TYPE or d1 not in TYPE or d2 not in TYPE:
                return self.cc(0x21, 0x01)
            if self.at[s] == 0:
                return self.cc(0x3B, 0x0E)
            m1 = self.at[d1]
            if m1 and d2 != s and self.at[d2] != 0:
                return self.cc(0x3B, 0x0D)
            ms, ss, s1 = self.at[s], self.src_after(s), self.src_after(d1)
            self.at[s], self.src[s] = 0, 0
            self.at[d1], self.src[d1] = ms, ss
            if m1:
                self.at[d2], self.src[d2] = m1, s1
            if IE in (s, d1) or (m1 and d2 == IE):
                self.byop = False
            self.pos = d2 if m1 else d1
            return 0, None
        if op == 0x2B:
            xfer, d, inv = be(2), be(4), cdb[8] & 1
            self.last = ("position", [xfer, d, inv])
            if xfer != MT or d not in TYPE:
                return self.cc(0x21, 0x01)
            self.pos = d
            return 0, None
        if op == 0x07:
            self.last = ("initall", [])
            self.inited = set(ORDER)
            return 0, None
        if op == 0x37:
            fast, rng, start, num = (cdb[1] >> 1) & 1, cdb[1] & 1, be(2), be(6)
            self.last = ("initrange", [start, num, rng, fast])
            if rng == 0:
                self.inited = set(ORDER)
            else:
                self.inited |= set(sorted(e for e in ORDER if e >= start)[:num])
            return 0, None
        if op == 0x1B:
            e, code = be(2), cdb[4] & 0x1F
            self.last = ("openclose", [e, code])
            if e != IE or code > 1:
                return self.cc(0x21, 0x01)
            if code == 0 and self.prevent:
                return self.cc(0x53, 0x02)
            self.ieopen = code == 0
            return 0, None
        if op == 0x1E:
            p = cdb[4] & 3
            self.last = ("prevent", [p])
            self.prevent = p == 1
            return 0, None
        # READ ELEMENT STATUS
        voltag, t, start, num, alloc = (cdb[1] >> 4) & 1, cdb[1] & 0x0F, be(2), be(4), be(7, 3)
        self.last = ("status", [t, start, num, voltag])
        if alloc != len(datain):
            self.odd.append(("allocation length %d, buffer %d" % (alloc, len(datain))))
        d = self.report(t, start, num, voltag)[:alloc]
        datain[:len(d)] = d[:len(datain)]
        return 0, None


def read_view(result):
    """the caller's reading of a decoded element status report, in the vocabulary of Changer!Desc"""
    pages = []
    for p in result.get("element_status_pages", []):
        ds = []
        for d in p["element_descriptors"]:
            tag = bytes(d.get("primary_volume_tag", b""))
            vol = 0
            if tag[:5] == b"VOL00":
                try:
                    vol = int(tag[5:6])
                except ValueError:
                    vol = 99
            elif tag.strip(b"\0"):
                vol = 99
            ds.append({"a": int(d["element_address"]), "f": int(d["full"]), "x": int(d["except"]), "v": vol,
                       "sv": int(d["svalid"]), "s": int(d["source_storage_element_address"]),
                       "acc": int(d.get("access", 0)), "ie": int(d.get("impexp", 0))})
        pages.append({"t": int(p["element_type"]), "d": ds})
    return pages


def changer(chk, mini=False):
    """mini: one exhaustive configuration, a spread of its behaviours, no simulation (used by harness.selftest)"""
    from ..core import bindings
    ev = chk.ev
    beh = []
    cfgs = ["MC_Changer_iscsi.cfg", "MC_Changer_sgio.cfg", "MC_ChangerS_iscsi.cfg", "MC_ChangerS_sgio.cfg"]
    if not chk.quick:
        cfgs += ["MC_Changer2_iscsi.cfg", "MC_Changer2_sgio.cfg"]
    if mini:
        cfgs = cfgs[:2]
    for cfg in cfgs:
        r = tlc.run("Changer", cfg, workers=8, timeout=1800, coverage=cfg.startswith("MC_Changer_"), name="c13chg")
        if not r.ok:
            raise tlc.TLCFailure("Changer.tla violated %s\n%s" % (r.violated, r.counterexample[:1500]))
        if cfg.startswith("MC_Changer_"):
            for a in ("Move", "Exchange", "Position", "InitAll", "InitRange", "OpenClose", "Prevent", "Status", "Size", "Door"):
                if r.coverage.get(a, (0, 0))[0] == 0:
                    raise tlc.TLCFailure("Changer.tla vacuous: %s never taken" % a)
        ev.tlc("Changer/" + cfg + " (exhaustive)", r)
        b = [v for t, v in r.prints if t == "CHANGER"]
        if chk.quick and len(b) > 600:
            # every behaviour in the thorough tier; here a sample, with those that re-issue the kept command first
            re_ = [x for x in b if any(s_["act"] == "reissue" for s_ in x["steps"])][:200]
            b = re_ + random.Random(chk.seed).sample(b, 600 - len(re_))
        beh += b
        r.prints = []
    if not chk.quick and not mini:
        # the core state space without the history (TLC VIEW): every reachable target state and every kind of transition,
        # for histories of any length - the state invariants and action properties hold unboundedly at design level
        ru = tlc.run("Changer", "MC_Changer_unbounded.cfg", workers=8, timeout=2400, name="c13ub")
        if not ru.ok:
            raise tlc.TLCFailure("Changer.tla (unbounded, VIEW) violated %s\n%s" % (ru.violated, ru.counterexample[:1500]))
        ev.tlc("Changer/MC_Changer_unbounded.cfg (core states under VIEW, histories of any length)", ru)
    for cfg in (() if mini else ("Sim_Changer_iscsi.cfg", "Sim_Changer_sgio.cfg")):
        rs = tlc.run("Changer", cfg, workers=1, timeout=1800, name="c13chgsim", simulate="num=%d" % (60 if chk.quick else 4000),
                     extra=["-depth", "40", "-seed", str(chk.seed + 17)])
        if rs.violated:
            raise tlc.TLCFailure("Changer.tla (simulation) violated %s" % rs.violated)
        beh += [v for t, v in rs.prints if t == "CHANGER"]
    if mini:
        beh = beh[::max(1, len(beh) // 160)]
    fs, fi = bindings.install(True, True)
    d = bindings.shm_dir("c13c")
    path = os.path.join(d, "sg1")
    open(path, "wb").close()
    SCSI = mod("pyscsi.pyscsi.scsi").SCSI
    steps = 0
    acts = {}
    rng = random.Random(chk.seed)
    try:
        for b in beh:
            tgt = ChangerTarget()
            fs.reset(tgt)
            fi.reset(tgt)
            if b["tr"] == "iscsi":
                dev = mod("pyscsi.pyiscsi.iscsi_device").ISCSIDevice("iscsi://h/iqn.changer/0", "iqn.i")
            else:
                dev = mod("pyscsi.pyscsi.scsi_device").SCSIDevice(path, readwrite=True)
            facade = SCSI(dev, 0)
            tgt.seen = 0
            kept = None
            for i, s_ in enumerate(b["steps"]):
                a, g = s_["act"], s_["args"]
                seen0 = tgt.seen
                tgt.last = None
                out, d1, d2, view = "ok", 0, 0, []
                sent_args = None
                try:
                    if a == "move":
                        facade.movemedium(g[0], g[1], g[2], invert=g[3]) if (g[3] or rng.getrandbits(1)) else \
                            facade.movemedium(g[0], g[1], g[2])
                        sent_args = ("move", g)
                    elif a == "exchange":
                        facade.exchangemedium(g[0], g[1], g[2], g[3])
                        sent_args = ("exchange", g)
                    elif a == "position":
                        facade.positiontoelement(g[0], g[1], invert=g[2])
                        sent_args = ("position", g)
                    elif a == "initall":
                        facade.initializeelementstatus()
                        sent_args = ("initall", [])
                    elif a == "initrange":
                        facade.initializeelementstatuswithrange(g[0], g[1], rng=g[2], fast=g[3])
                        sent_args = ("initrange", g)
                    elif a == "openclose":
                        sent_args = ("openclose", g)
                        facade.opencloseimportexportelement(g[0], g[1])
                    elif a == "prevent":
                        facade.preventallowmediumremoval(prevent=g[0])
                        sent_args = ("prevent", g)
                    elif a in ("status", "keepstatus", "size"):
                        sent_args = ("status", g)
                        kw = {"element_type": g[0], "voltag": g[3]}
                        if a == "size":
                            kw["alloclen"] = 8
                        elif rng.getrandbits(1):
                            kw["alloclen"] = rng.choice([400, 1024, 0x11000])
                        c = facade.readelementstatus(g[1], g[2], **kw)
                        d1 = int(c.result["num_elements"])
                        d2 = int.from_bytes(bytes(c.datain[5:8]), "big")
                        view = read_view(c.result)
                        if a == "keepstatus":
                            kept = c
                    elif a == "reissue":
                        sent_args = ("status", g)
                        facade.execute(kept)
                        kept.unmarshall()
                        d1 = int(kept.result["num_elements"])
                        d2 = int.from_bytes(bytes(kept.datain[5:8]), "big")
                        view = read_view(kept.result)
                    elif a == "insert":
                        tgt.at[IE], tgt.src[IE], tgt.byop = g[0], 0, True
                    elif a == "remove":
                        tgt.at[IE], tgt.src[IE], tgt.byop = 0, 0, False
                    elif a == "door":
                        tgt.inited = set()
                except BaseException as ex:
                    out = type(ex).__name__
                    if out == "CheckCondition":
                        try:
                            d1 = int(ex.data["sense_key"])
                            d2 = int(ex.data["additional_sense_code"]) * 256 + int(ex.data["additional_sense_code_qualifier"])
                        except Exception:
                            d1 = 99
                    if a in ("move", "exchange", "openclose"):
                        sent_args = (a, g)
                sent = tgt.seen - seen0
                steps += 1
                acts[a] = acts.get(a, 0) + 1
                st = tgt.state()
                bad = None
                if sent != s_["sent"]:
                    bad = "ExactlyOnce"
                elif sent_args is not None and sent == 1 and tgt.last != (sent_args[0], list(sent_args[1])):
                    bad = "AllArgumentsReachCdb"
                elif out != s_["out"] or (out != "ok" and (d1, d2) != (s_["d1"], s_["d2"])):
                    bad = "SessionOutcome"
                elif st != s_["st"] or tgt.odd:
                    bad = "AllArgumentsReachCdb"
                elif out == "ok" and ((d1, d2) != (s_["d1"], s_["d2"]) or view != s_["view"]):
                    bad = "DecodesWhatDeviceReturned"
                if bad:
                    chk.violation({"clause": bad, "cls": "", "field": "", "method": "changer:" + a, "set": b["tr"],
                                   "detail": {"step": i, "expected": s_, "observed": {"out": out, "sent": sent, "d1": d1, "d2": d2,
                                                                                     "view": view, "st": st, "changer_decoded": tgt.last,
                                                                                     "odd": tgt.odd[:3]},
                                              "behaviour": [(x["act"], x["args"]) for x in b["steps"][:i + 1]]},
                                   "what": "Changer.tla behaviour replayed"}, dedup=("Changer", a, bad, b["tr"]))
                    break
            try:
                dev.close()
            except Exception:
                pass
            ev.case(("changer", b["tr"], str([(x["act"], x["args"]) for x in b["steps"]])[:600]))
    finally:
        for f in os.listdir(d):
            os.unlink(os.path.join(d, f))
        os.rmdir(d)
    ev.cov["changer_behaviours_replayed"] = len(beh)
    ev.cov["changer_steps"] = steps
    ev.cov["changer_steps_by_action"] = acts
