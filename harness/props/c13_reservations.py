"""C13 (persistent reservations) - behaviours of Reservations.tla replayed on two real facades (two initiators of one
logical unit) against a target that implements SPC-4 5.7 from the standard's text (spec -> code)."""
import os
import random
import struct

from ..core import tlc
from ..core.lib import mod

KEY = {0: 0, 1: 0x1122334455667701, 2: 0xA0B0C0D0E0F00002}      # every byte of a key differs from its neighbours
BACK = {v: k for k, v in KEY.items()}


class PrTarget(object):
    """one logical unit, two I_T nexuses.  PERSISTENT RESERVE OUT (5Fh: service action byte 1 bits 4-0, scope / type
    byte 2, parameter list length bytes 5-8; list: RESERVATION KEY 0-7, SERVICE ACTION RESERVATION KEY 8-15, flags
    byte 20) and PERSISTENT RESERVE IN (5Eh: service action byte 1, allocation length bytes 7-8) as in SPC-4 6.13 /
    6.14, READ(10) / WRITE(10) gated by table 66."""

    def __init__(self):
        self.reg = {1: 0, 2: 0}
        self.holder = self.rtype = self.gen = 0
        self.disk = 0
        self.seen = 0
        self.who = 1                # set by the bindings' shim before each command
        self.last = None
        self.odd = []

    def state(self):
        return {"reg": [BACK.get(self.reg[1], 99), BACK.get(self.reg[2], 99)], "holder": self.holder, "rtype": self.rtype,
                "gen": self.gen, "disk": self.disk}

    @staticmethod
    def illegal(asc, ascq):
        return 2, bytes([0x70, 0, 5, 0, 0, 0, 0, 10, 0, 0, 0, 0, asc, ascq, 0, 0, 0, 0])

    def drop(self, victims):
        for j in victims:
            self.reg[j] = 0
            if self.holder == j:
                self.holder = self.rtype = 0

    def __call__(self, cdb, dataout, datain):
        self.seen += 1
        cdb = bytes(cdb)
        i = self.who
        op = cdb[0]
        if op == 0x12:
            d = bytearray(96)
            d[0], d[2], d[4] = 0, 6, 91
            d[8:16] = b"VERIFPR "
            datain[:len(d)] = d[:len(datain)]
            return 0, None
        if op == 0x28 or op == 0x2A:
            wr = op == 0x2A
            ok = self.holder in (0, i)
            if not ok:
                if wr:
                    ok = self.rtype in (5, 6) and self.reg[i] != 0
                else:
                    ok = self.rtype in (1, 5) or (self.rtype == 6 and self.reg[i] != 0)
            self.last = ("write" if wr else "read", [])
            if not ok:
                return 0x18, None
            if wr:
                self.disk = dataout[0]
            else:
                datain[0:1] = bytes([self.disk])
            return 0, None
        if op == 0x5F and len(cdb) == 10:
            sa, scope, typ = cdb[1] & 0x1F, cdb[2] >> 4, cdb[2] & 0x0F
            plen = struct.unpack(">I", cdb[5:9])[0]
            if sa == 7:
                # REGISTER AND MOVE parameter list (SPC-4 table 200): keys, byte 17 UNREG / APTPL, RELATIVE TARGET PORT
                # IDENTIFIER 18-19, TRANSPORTID PARAMETER DATA LENGTH 20-23, then the TransportID (iSCSI: format / protocol,
                # ADDITIONAL LENGTH 2-3, null-terminated name padded to a multiple of four)
                data = bytes(dataout)
                if plen != len(data) or len(data) < 24 + 8:
                    self.odd.append("REGISTER AND MOVE list length %d, data-out %d" % (plen, len(data)))
                    return self.illegal(0x1A, 0x00)
                key, sakey = struct.unpack(">QQ", data[:16])
                unreg, rtpi, tlen = (data[17] >> 1) & 1, struct.unpack(">H", data[18:20])[0], struct.unpack(">I", data[20:24])[0]
                tid = data[24:]
                if data[16] or data[17] & 0xFC or cdb[1] & 0xE0 or cdb[3] or cdb[4] or scope:
                    self.odd.append("reserved bits set: cdb %s list %s" % (list(cdb), list(data[:24])))
                if tlen != len(tid) or tlen % 4 or tid[0] != 0x05 or tid[1] or struct.unpack(">H", tid[2:4])[0] != len(tid) - 4 \
                        or not tid.endswith(b"\0"):
                    self.odd.append("TransportID %s (length field %d)" % (list(tid), tlen))
                    return self.illegal(0x26, 0x00)
                name = tid[4:].rstrip(b"\0").decode("ascii", "replace")
                j = {"iqn.i1": 1, "iqn.i2": 2}.get(name, 0)
                self.last = (sa, [typ, key, sakey, unreg, j, rtpi])
                mine = self.reg[i]
                if mine == 0 or key != mine or self.holder != i:
                    return 0x18, None
                if sakey == 0 or j == i or j == 0:
                    return self.illegal(0x26, 0x00)
                self.reg[j] = sakey
                self.holder = j
                if unreg:
                    self.reg[i] = 0
                self.gen += 1
                return 0, None
            if plen != len(dataout) or plen != 24:
                self.odd.append("parameter list length %d, data-out %d" % (plen, len(dataout)))
                return self.illegal(0x1A, 0x00)
            key, sakey = struct.unpack(">QQ", bytes(dataout[:16]))
            if any(dataout[16:20]) or any(dataout[21:24]) or dataout[20] & 0xF2 or cdb[1] & 0xE0 or cdb[3] or cdb[4] or scope:
                self.odd.append("reserved bits set: cdb %s list %s" % (list(cdb), list(dataout)))
            self.last = (sa, [typ, key, sakey])
            mine = self.reg[i]
            if sa == 0 or sa == 6:            # REGISTER / REGISTER AND IGNORE EXISTING KEY
                if sa == 0 and key != mine:
                    return 0x18, None
                if mine == 0 and sakey == 0:
                    return 0, None
                if sakey == 0:
                    self.drop([i])
                else:
                    self.reg[i] = sakey
                self.gen += 1
                return 0, None
            if mine == 0 or key != mine:
                return 0x18, None
            if sa == 1:                        # RESERVE
                if self.holder == 0:
                    self.holder, self.rtype = i, typ
                    return 0, None
                if self.holder == i and self.rtype == typ:
                    return 0, None
                return 0x18, None
            if sa == 2:                        # RELEASE
                if self.holder != i:
                    return 0, None
                if self.rtype != typ:
                    return self.illegal(0x26, 0x04)
                self.holder = self.rtype = 0
                return 0, None
            if sa == 3:                        # CLEAR
                self.drop([1, 2])
                self.gen += 1
                return 0, None
            if sa == 4:                        # PREEMPT
                if sakey == 0:
                    return self.illegal(0x26, 0x00)
                victims = [j for j in (1, 2) if j != i and self.reg[j] == sakey]
                if self.holder and self.reg[self.holder] == sakey:
                    for j in victims:
                        self.reg[j] = 0
                    self.holder, self.rtype = i, typ
                    self.gen += 1
                    return 0, None
                if not victims:
                    return 0x18, None
                self.drop(victims)
                self.gen += 1
                return 0, None
            self.odd.append("service action %d" % sa)
            return self.illegal(0x24, 0x00)
        if op == 0x5E and len(cdb) == 10:
            sa, alloc = cdb[1] & 0x1F, struct.unpack(">H", cdb[7:9])[0]
            self.last = ("in", [sa])
            if alloc != len(datain):
                self.odd.append("allocation length %d, buffer %d" % (alloc, len(datain)))
            regs = [j for j in (1, 2) if self.reg[j]]
            if sa == 0:
                body = b"".join(struct.pack(">Q", self.reg[j]) for j in regs)
                d = struct.pack(">II", self.gen, len(body)) + body
            elif sa == 1:
                if self.holder:
                    d = struct.pack(">II", self.gen, 16) + struct.pack(">Q", self.reg[self.holder]) + bytes(5) + \
                        bytes([self.rtype, 0, 0])
                else:
                    d = struct.pack(">II", self.gen, 0)
            elif sa == 2:
                # CRH, TMV; WR_EX (mask byte 4 bit 1), EX_AC (bit 3), WR_EX_RO (bit 5), EX_AC_RO (bit 6)
                d = bytes([0, 8, 0x10, 0x80, 0x6A, 0x00, 0, 0])
            elif sa == 3:
                body = b""
                for j in regs:
                    name = b"iqn.i%d" % j
                    name += b"\0" * (4 - len(name) % 4)
                    tid = bytes([0x05, 0]) + struct.pack(">H", len(name)) + name
                    h = self.holder == j
                    body += struct.pack(">Q", self.reg[j]) + bytes(4) + bytes([1 if h else 0, self.rtype if h else 0]) + \
                        bytes(4) + struct.pack(">H", j) + struct.pack(">I", len(tid)) + tid
                d = struct.pack(">II", self.gen, len(body)) + body
            else:
                self.odd.append("PR IN service action %d" % sa)
                return self.illegal(0x24, 0x00)
            d = d[:alloc]
            datain[:len(d)] = d[:len(datain)]
            return 0, None
        self.odd.append(("cdb", list(cdb)))
        return self.illegal(0x20, 0x00)


def reservations(chk, mini=False):
    """mini: one exhaustive configuration, a spread of its behaviours, no simulation (used by harness.selftest)"""
    from ..core import bindings
    ev = chk.ev
    beh = []
    cfgs = ["MC_Reservations_iscsi.cfg", "MC_Reservations_sgio.cfg", "MC_ReservationsS_iscsi.cfg", "MC_ReservationsS_sgio.cfg"]
    if not chk.quick:
        cfgs += ["MC_Reservations2_iscsi.cfg", "MC_Reservations2_sgio.cfg"]
    if mini:
        cfgs = cfgs[:2]
    for cfg in cfgs:
        r = tlc.run("Reservations", cfg, workers=8, timeout=1800, coverage=cfg.startswith("MC_Reservations_"), name="c13pr")
        if not r.ok:
            raise tlc.TLCFailure("Reservations.tla violated %s\n%s" % (r.violated, r.counterexample[:1500]))
        if cfg.startswith("MC_Reservations_"):
            for a in ("Register", "RegisterIgnore", "Reserve", "Release", "Clear", "Preempt", "RegisterMove", "ReadKeys", "ReadReservation",
                      "FullStatus", "Capabilities", "Write", "Read"):
                if r.coverage.get(a, (0, 0))[0] == 0:
                    raise tlc.TLCFailure("Reservations.tla vacuous: %s never taken" % a)
        ev.tlc("Reservations/" + cfg + " (exhaustive)", r)
        b = [v for t, v in r.prints if t == "RESERVATIONS"]
        if chk.quick and len(b) > 600:
            # every behaviour in the thorough tier; here a sample, those in which a reservation changes hands first
            pre = [x for x in b if any(s_["act"] in ("preempt", "regmove") and s_["out"] == "ok" for s_ in x["steps"])][:250]
            b = pre + random.Random(chk.seed).sample(b, 600 - len(pre))
        beh += b
        r.prints = []
    if not mini:
        # the core state space without the history (TLC VIEW): every reachable target state and every kind of transition,
        # for histories of any length - the state invariants and action properties hold unboundedly at design level
        ru = tlc.run("Reservations", "MC_Reservations_unbounded.cfg", workers=8, timeout=2400, name="c13ub")
        if not ru.ok:
            raise tlc.TLCFailure("Reservations.tla (unbounded, VIEW) violated %s\n%s" % (ru.violated, ru.counterexample[:1500]))
        ev.tlc("Reservations/MC_Reservations_unbounded.cfg (core states under VIEW, histories of any length)", ru)
    for cfg in (() if mini else ("Sim_Reservations_iscsi.cfg", "Sim_Reservations_sgio.cfg")):
        rs = tlc.run("Reservations", cfg, workers=1, timeout=1800, name="c13prsim", simulate="num=%d" % (60 if chk.quick else 4000),
                     extra=["-depth", "40", "-seed", str(chk.seed + 19)])
        if rs.violated:
            raise tlc.TLCFailure("Reservations.tla (simulation) violated %s" % rs.violated)
        beh += [v for t, v in rs.prints if t == "RESERVATIONS"]
    if mini:
        beh = beh[::max(1, len(beh) // 160)]
    fs, fi = bindings.install(True, True)
    d = bindings.shm_dir("c13p")
    paths = {1: os.path.join(d, "sg_i1"), 2: os.path.join(d, "sg_i2")}
    for p in paths.values():
        open(p, "wb").close()
    inos = {os.stat(p).st_ino: i for i, p in paths.items()}
    SCSI = mod("pyscsi.pyscsi.scsi").SCSI
    ec = mod("pyscsi.pyscsi.scsi_enum_command")
    OUT, IN = ec.sbc.PERSISTENT_RESERVE_OUT.serviceaction, ec.sbc.PERSISTENT_RESERVE_IN.serviceaction
    SA = {"register": 0, "regignore": 6, "reserve": 1, "release": 2, "clear": 3, "preempt": 4}
    steps, acts = 0, {}
    try:
        for b in beh:
            tgt = PrTarget()

            def via_sgio(c, o, i_, tgt=tgt):
                tgt.who = inos.get(fs.CALLS[-1]["ino"], 0)
                return tgt(c, o, i_)

            def via_iscsi(c, o, i_, tgt=tgt):
                tgt.who = {"iqn.i1": 1, "iqn.i2": 2}.get(fi.LOG[-1][1].get("initiator"), 0)
                return tgt(c, o, i_)
            fs.reset(via_sgio)
            fi.reset(via_iscsi)
            facades, devs = {}, []
            for i in (1, 2):
                if b["tr"] == "iscsi":
                    dev = mod("pyscsi.pyiscsi.iscsi_device").ISCSIDevice("iscsi://h/iqn.lu/0", "iqn.i%d" % i)
                else:
                    dev = mod("pyscsi.pyscsi.scsi_device").SCSIDevice(paths[i], readwrite=True)
                devs.append(dev)
                facades[i] = SCSI(dev, 1)
            tgt.seen = 0
            for n, s_ in enumerate(b["steps"]):
                a, g, i = s_["act"], s_["args"], s_["i"]
                f = facades[i]
                seen0 = tgt.seen
                tgt.last = None
                out, d1, d2, view = "ok", 0, 0, []
                want_last = None
                try:
                    if a in ("register", "regignore"):
                        want_last = (SA[a], [None, KEY[g[0]], KEY[g[1]]])
                        f.persistentreserveout(getattr(OUT, "REGISTER" if a == "register" else "REGISTER_AND_IGNORE_EXISTING_KEY"),
                                               reservation_key=KEY[g[0]], service_action_reservation_key=KEY[g[1]])
                    elif a in ("reserve", "release"):
                        want_last = (SA[a], [g[1], KEY[g[0]], 0])
                        f.persistentreserveout(getattr(OUT, a.upper()), 0, g[1], reservation_key=KEY[g[0]])
                    elif a == "clear":
                        want_last = (SA[a], [None, KEY[g[0]], 0])
                        f.persistentreserveout(OUT.CLEAR, reservation_key=KEY[g[0]])
                    elif a == "preempt":
                        want_last = (SA[a], [g[2], KEY[g[0]], KEY[g[1]]])
                        f.persistentreserveout(OUT.PREEMPT, scope=0, pr_type=g[2], reservation_key=KEY[g[0]],
                                               service_action_reservation_key=KEY[g[1]])
                    elif a == "regmove":
                        want_last = (7, [None, KEY[g[0]], KEY[g[1]], g[2], g[3], 1])
                        f.persistentreserveout(OUT.REGISTER_AND_MOVE, reservation_key=KEY[g[0]], service_action_reservation_key=KEY[g[1]],
                                               unreg=g[2], relative_target_port_id=1,
                                               transport_id={"protocol_id": 5, "iscsi_name": "iqn.i%d" % g[3]})
                    elif a == "readkeys":
                        want_last = ("in", [0])
                        r_ = f.persistentreservein(IN.READ_KEYS).result
                        d1, view = int(r_["pr_generation"]), [BACK.get(int(k), 99) for k in r_["reservation_keys"]]
                        d2 = len(view)
                    elif a == "readres":
                        want_last = ("in", [1])
                        r_ = f.persistentreservein(IN.READ_RESERVATION).result
                        d1 = int(r_["pr_generation"])
                        if "reservation_key" in r_:
                            d2, view = 1, [BACK.get(int(r_["reservation_key"]), 99), int(r_["type"])]
                    elif a == "fullstatus":
                        want_last = ("in", [3])
                        r_ = f.persistentreservein(IN.READ_FULL_STATUS).result
                        d1 = int(r_["pr_generation"])
                        for x in r_["full_status"]:
                            nm = x["transport_id"].get("iscsi_name", "")
                            view.append({"key": BACK.get(int(x["reservation_key"]), 99), "h": int(x["r_holder"]),
                                         "t": int(x["type"]) if x["r_holder"] else 0,
                                         "ini": {"iqn.i1": 1, "iqn.i2": 2}.get(nm, 99)})
                        d2 = len(view)
                    elif a == "caps":
                        want_last = ("in", [2])
                        r_ = f.persistentreservein(IN.REPORT_CAPABILITIES).result
                        m = r_.get("pr_type_mask", {})
                        view = {"crh": int(r_["crh"]), "sip_c": int(r_["sip_c"]), "atp_c": int(r_["atp_c"]), "ptpl_c": int(r_["ptpl_c"]),
                                "tmv": int(r_["tmv"]), "ptpl_a": int(r_["ptpl_a"]), "allow": int(r_["allow_commands"]),
                                "wr_ex": int(m.get("wr_ex", -1)), "ex_ac": int(m.get("ex_ac", -1)), "wr_ex_ro": int(m.get("wr_ex_ro", -1)),
                                "ex_ac_ro": int(m.get("ex_ac_ro", -1)), "wr_ex_ar": int(m.get("wr_ex_ar", -1)),
                                "ex_ac_ar": int(m.get("ex_ac_ar", -1))}
                    elif a == "write":
                        want_last = ("write", [])
                        f.write10(0, 1, bytearray([g[0]]))
                    elif a == "read":
                        want_last = ("read", [])
                        d1 = f.read10(0, 1).datain[0]
                except BaseException as ex:
                    out = type(ex).__name__
                    if out == "CheckCondition":
                        try:
                            d1 = int(ex.data["sense_key"])
                            d2 = int(ex.data["additional_sense_code"]) * 256 + int(ex.data["additional_sense_code_qualifier"])
                        except Exception:
                            d1 = 99
                sent = tgt.seen - seen0
                steps += 1
                acts[a] = acts.get(a, 0) + 1
                st = tgt.state()
                got_last = tgt.last
                if got_last is not None and want_last is not None and want_last[1] and want_last[1][0] is None and len(got_last[1]) >= 3:
                    got_last = (got_last[0], [None] + list(got_last[1][1:]))       # TYPE is not used by this service action
                bad = None
                if sent != 1:
                    bad = "ExactlyOnce"
                elif got_last != want_last or tgt.odd:
                    bad = "AllArgumentsReachCdb"
                elif out != s_["out"] or (out != "ok" and (d1, d2) != (s_["d1"], s_["d2"])):
                    bad = "SessionOutcome"
                elif st != s_["st"]:
                    bad = "AllArgumentsReachCdb"
                elif out == "ok" and ((d1, d2) != (s_["d1"], s_["d2"]) or view != s_["view"]):
                    bad = "DecodesWhatDeviceReturned"
                if bad:
                    chk.violation({"clause": bad, "cls": "", "field": "", "method": "reservations:" + a, "set": b["tr"],
                                   "detail": {"step": n, "expected": s_, "observed": {"out": out, "sent": sent, "d1": d1, "d2": d2,
                                                                                     "view": view, "st": st, "target_decoded": str(tgt.last),
                                                                                     "wanted": str(want_last), "odd": tgt.odd[:3]},
                                              "behaviour": [(x["i"], x["act"], x["args"]) for x in b["steps"][:n + 1]]},
                                   "what": "Reservations.tla behaviour replayed"}, dedup=("Reservations", a, bad, b["tr"]))
                    break
            for dv in devs:
                try:
                    dv.close()
                except Exception:
                    pass
            ev.case(("reservations", b["tr"], str([(x["i"], x["act"], x["args"]) for x in b["steps"]])[:600]))
    finally:
        for f_ in os.listdir(d):
            os.unlink(os.path.join(d, f_))
        os.rmdir(d)
    ev.cov["reservations_behaviours_replayed"] = len(beh)
    ev.cov["reservations_steps"] = steps
    ev.cov["reservations_steps_by_action"] = acts
