"""C13 (mode pages) - behaviours of ModePages.tla replayed on the real facade against a target that keeps mode pages,
parses MODE SELECT parameter lists and builds MODE SENSE data by SPC-4 (spec -> code)."""
import os
import random

from ..core import tlc
from ..core.lib import mod

NAMES = {10: ["swp", "d_sense", "queue_algorithm_modifier", "busy_timeout_period"], 2: ["maximum_burst_size", "buffer_full_ratio"]}
DEFAULT = {10: [0, 0, 1, 0], 2: [0, 128]}
MASK = {10: [1, 1, 0, 0xFFFF], 2: [0xFFFF, 0]}


def page_bytes(p, vals, ps=1):
    """the page as SPC-4 7.5.8 (Control) / 7.5.10 (Disconnect-Reconnect) lay it out"""
    if p == 10:
        swp, dsense, qam, btp = vals
        d = bytearray(12)
        d[0], d[1] = (0x80 if ps else 0) | 0x0A, 0x0A
        d[2] = (dsense & 1) << 2
        d[3] = (qam & 0x0F) << 4
        d[4] = (swp & 1) << 3
        d[8:10] = (btp & 0xFFFF).to_bytes(2, "big")
        return d
    mbs, bfr = vals
    d = bytearray(16)
    d[0], d[1] = (0x80 if ps else 0) | 0x02, 0x0E
    d[2] = bfr & 0xFF
    d[10:12] = (mbs & 0xFFFF).to_bytes(2, "big")
    return d


def parse_page(d):
    """MODE SELECT side: (page code, values) - any bit of the page that this target does not implement must be zero"""
    p = d[0] & 0x3F
    if d[0] & 0x40:
        return None, "sub-page format"
    if p == 10:
        if d[1] != 0x0A or len(d) < 12:
            return None, "control page length %d" % d[1]
        other = bytearray(d[:12])
        other[0] = other[1] = 0
        other[2] &= ~0x04 & 0xFF
        other[3] &= 0x0F
        other[4] &= ~0x08 & 0xFF
        other[8] = other[9] = 0
        if any(other):
            return None, "other control page bits set: %s" % list(d[:12])
        return 10, [(d[4] >> 3) & 1, (d[2] >> 2) & 1, d[3] >> 4, int.from_bytes(d[8:10], "big")]
    if p == 2:
        if d[1] != 0x0E or len(d) < 16:
            return None, "disconnect-reconnect page length %d" % d[1]
        other = bytearray(d[:16])
        other[0] = other[1] = other[2] = other[10] = other[11] = 0
        if any(other):
            return None, "other disconnect-reconnect bits set: %s" % list(d[:16])
        return 2, [int.from_bytes(d[10:12], "big"), d[2]]
    return None, "page %02Xh" % p


class ModeTarget(object):
    def __init__(self):
        self.cur = {p: list(v) for p, v in DEFAULT.items()}
        self.saved = {p: list(v) for p, v in DEFAULT.items()}
        self.disk = 0
        self.seen = 0
        self.last = None
        self.odd = []
        self.sense_format = None

    def state(self):
        return {"c10": self.cur[10], "c2": self.cur[2], "s10": self.saved[10], "s2": self.saved[2], "disk": self.disk}

    def cc(self, key, asc, ascq):
        self.sense_format = self.cur[10][1]
        if self.cur[10][1]:
            return 2, bytes([0x72, key, asc, ascq, 0, 0, 0, 0])
        return 2, bytes([0x70, 0, key, 0, 0, 0, 0, 10, 0, 0, 0, 0, asc, ascq, 0, 0, 0, 0])

    def __call__(self, cdb, dataout, datain):
        self.seen += 1
        cdb = bytes(cdb)
        op = cdb[0]
        if op == 0x12:
            d = bytearray(96)
            d[0], d[2], d[4] = 0, 6, 91
            d[8:16] = b"VERIFMP "
            datain[:len(d)] = d[:len(datain)]
            return 0, None
        if op == 0x2A:
            self.last = ("write", [])
            if self.cur[10][0]:
                return self.cc(7, 0x27, 0x00)
            self.disk = dataout[0]
            return 0, None
        if op == 0x28:
            self.last = ("read", [])
            datain[0:1] = bytes([self.disk])
            return 0, None
        if op in (0x1A, 0x5A) and len(cdb) == (6 if op == 0x1A else 10):
            ten = op == 0x5A
            dbd, pc, page, sub = (cdb[1] >> 3) & 1, cdb[2] >> 6, cdb[2] & 0x3F, cdb[3]
            alloc = int.from_bytes(cdb[7:9], "big") if ten else cdb[4]
            self.last = ("sense", [10 if ten else 6, pc, page, dbd])
            if sub or page not in self.cur or (cdb[1] & (0xE7 if ten else 0xF7)):
                self.odd.append("MODE SENSE cdb %s" % list(cdb))
                return self.cc(5, 0x24, 0x00)
            if alloc != len(datain):
                self.odd.append("allocation length %d, buffer %d" % (alloc, len(datain)))
            vals = {0: self.cur[page], 1: MASK[page], 2: DEFAULT[page], 3: self.saved[page]}[pc]
            bd = b"" if dbd else bytes([0, 0, 0, 2, 0, 0, 0, 1])
            body = bd + page_bytes(page, vals)
            wp = 0x80 if self.cur[10][0] else 0
            if ten:
                d = (len(body) + 6).to_bytes(2, "big") + bytes([0, wp, 0, 0]) + len(bd).to_bytes(2, "big") + body
            else:
                d = bytes([len(body) + 3, 0, wp, len(bd)]) + body
            d = d[:alloc]
            datain[:len(d)] = d[:len(datain)]
            return 0, None
        if op in (0x15, 0x55) and len(cdb) == (6 if op == 0x15 else 10):
            ten = op == 0x55
            pf, sp = (cdb[1] >> 4) & 1, cdb[1] & 1
            plen = int.from_bytes(cdb[7:9], "big") if ten else cdb[4]
            data = bytes(dataout)
            if plen != len(data):
                self.odd.append("parameter list length %d, data-out %d" % (plen, len(data)))
                return self.cc(5, 0x1A, 0x00)
            hl = 8 if ten else 4
            if len(data) < hl:
                return self.cc(5, 0x1A, 0x00)
            bdl = int.from_bytes(data[6:8], "big") if ten else data[3]
            pages = data[hl + bdl:]
            if len(pages) < 2 or len(pages) != pages[1] + 2:
                self.odd.append("parameter list %s" % list(data))
                return self.cc(5, 0x1A, 0x00)
            page, vals = parse_page(pages)
            self.last = ("select", [10 if ten else 6, sp, page, vals, pf])
            if page is None:
                self.odd.append(vals)
                return self.cc(5, 0x26, 0x00)
            for k, m in enumerate(MASK[page]):
                if m == 0 and vals[k] != self.cur[page][k]:
                    return self.cc(5, 0x26, 0x00)
            self.cur[page] = list(vals)
            if sp:
                self.saved[page] = list(vals)
            return 0, None
        self.odd.append(("cdb", list(cdb)))
        return self.cc(5, 0x20, 0x00)


def modepages(chk, mini=False):
    """mini: one exhaustive configuration, a spread of its behaviours, no simulation (used by harness.selftest)"""
    from ..core import bindings
    ev = chk.ev
    beh = []
    cfgs = ["MC_ModePages_iscsi.cfg", "MC_ModePages_sgio.cfg", "MC_ModePagesS_iscsi.cfg", "MC_ModePagesS_sgio.cfg"]
    if not chk.quick:
        cfgs += ["MC_ModePages3_iscsi.cfg", "MC_ModePages3_sgio.cfg"]
    if mini:
        cfgs = cfgs[:2]
    for cfg in cfgs:
        r = tlc.run("ModePages", cfg, workers=8, timeout=1800, coverage=cfg.startswith("MC_ModePages_"), name="c13mp")
        if not r.ok:
            raise tlc.TLCFailure("ModePages.tla violated %s\n%s" % (r.violated, r.counterexample[:1500]))
        if cfg.startswith("MC_ModePages_"):
            for a in ("Sense", "Select", "Write", "Read", "PowerCycle"):
                if r.coverage.get(a, (0, 0))[0] == 0:
                    raise tlc.TLCFailure("ModePages.tla vacuous: %s never taken" % a)
        ev.tlc("ModePages/" + cfg + " (exhaustive)", r)
        b = [v for t, v in r.prints if t == "MODEPAGES"]
        if chk.quick and len(b) > 600:
            # every behaviour in the thorough tier; here a sample, those with a write under protection first
            pre = [x for x in b if any(s_["act"] == "write" and s_["out"] != "ok" for s_ in x["steps"])][:200]
            b = pre + random.Random(chk.seed).sample(b, 600 - len(pre))
        beh += b
        r.prints = []
    if not mini:
        # the core state space without the history (TLC VIEW): every reachable target state and every kind of transition,
        # for histories of any length - the state invariants and action properties hold unboundedly at design level
        ru = tlc.run("ModePages", "MC_ModePages_unbounded.cfg", workers=8, timeout=2400, name="c13ub")
        if not ru.ok:
            raise tlc.TLCFailure("ModePages.tla (unbounded, VIEW) violated %s\n%s" % (ru.violated, ru.counterexample[:1500]))
        ev.tlc("ModePages/MC_ModePages_unbounded.cfg (core states under VIEW, histories of any length)", ru)
    for cfg in (() if mini else ("Sim_ModePages_iscsi.cfg", "Sim_ModePages_sgio.cfg")):
        rs = tlc.run("ModePages", cfg, workers=1, timeout=1800, name="c13mpsim", simulate="num=%d" % (60 if chk.quick else 4000),
                     extra=["-depth", "40", "-seed", str(chk.seed + 23)])
        if rs.violated:
            raise tlc.TLCFailure("ModePages.tla (simulation) violated %s" % rs.violated)
        beh += [v for t, v in rs.prints if t == "MODEPAGES"]
    if mini:
        beh = beh[::max(1, len(beh) // 160)]
    fs, fi = bindings.install(True, True)
    d = bindings.shm_dir("c13m")
    path = os.path.join(d, "sg2")
    open(path, "wb").close()
    SCSI = mod("pyscsi.pyscsi.scsi").SCSI
    steps, acts = 0, {}
    rng = random.Random(chk.seed)
    try:
        for b in beh:
            tgt = ModeTarget()
            fs.reset(tgt)
            fi.reset(tgt)
            if b["tr"] == "iscsi":
                dev = mod("pyscsi.pyiscsi.iscsi_device").ISCSIDevice("iscsi://h/iqn.mp/0", "iqn.i")
            else:
                dev = mod("pyscsi.pyscsi.scsi_device").SCSIDevice(path, readwrite=True)
            f = SCSI(dev, 1)
            tgt.seen = 0
            held = None
            for n, s_ in enumerate(b["steps"]):
                a, g = s_["act"], s_["args"]
                seen0 = tgt.seen
                tgt.last, tgt.sense_format = None, None
                out, d1, d2, view = "ok", 0, 0, []
                want_last = None
                fmt_seen = None
                try:
                    if a == "sense":
                        v, pc, p, dbd = g
                        want_last = ("sense", [v, pc, p, dbd])
                        kw = {"pc": pc, "dbd": dbd}
                        if rng.getrandbits(1):
                            kw["alloclen"] = rng.choice([64, 200, 255])
                        r_ = (f.modesense6 if v == 6 else f.modesense10)(p, **kw).result
                        mp = r_["mode_pages"]
                        if len(mp) != 1 or int(mp[0]["page_code"]) != p:
                            view = ["pages", len(mp)]
                        else:
                            view = [int(mp[0][nm]) for nm in NAMES[p]]
                        d1 = int(r_["device_specific_parameter"]) >> 7
                        d2 = s_["d2"]
                        if pc == 0:
                            held = (v, p, r_)
                    elif a == "select":
                        v, sp, p, fld, x = g
                        hv, hp, hr = held
                        hr["mode_pages"][0][NAMES[hp][fld - 1]] = x
                        want_last = ("select", [hv, sp, hp, s_["view"], 1])
                        view = [int(hr["mode_pages"][0][nm]) for nm in NAMES[hp]]
                        if sp or rng.getrandbits(1):
                            (f.modeselect6 if hv == 6 else f.modeselect10)(hr, sp=sp)
                        else:
                            (f.modeselect6 if hv == 6 else f.modeselect10)(hr)
                    elif a == "write":
                        want_last = ("write", [])
                        view = list(s_["view"])
                        f.write10(0, 1, bytearray([g[0]]))
                    elif a == "read":
                        want_last = ("read", [])
                        d1 = f.read10(0, 1).datain[0]
                    elif a == "powercycle":
                        tgt.cur = {p: list(v) for p, v in tgt.saved.items()}
                except BaseException as ex:
                    out = type(ex).__name__
                    if out == "CheckCondition":
                        try:
                            d1 = int(ex.data["sense_key"])
                            d2 = int(ex.data["additional_sense_code"]) * 256 + int(ex.data["additional_sense_code_qualifier"])
                            fmt_seen = 1 if int(ex.response_code) in (0x72, 0x73) else 0
                        except Exception:
                            d1 = 99
                sent = tgt.seen - seen0
                steps += 1
                acts[a] = acts.get(a, 0) + 1
                st = tgt.state()
                bad = None
                if sent != s_["sent"]:
                    bad = "ExactlyOnce"
                elif want_last is not None and (tgt.last != want_last or tgt.odd):
                    bad = "AllArgumentsReachCdb"
                elif out != s_["out"] or (out != "ok" and (d1, d2) != (s_["d1"], s_["d2"])):
                    bad = "SessionOutcome"
                elif out == "CheckCondition" and fmt_seen != tgt.sense_format:
                    bad = "SessionOutcome"           # the error names another sense format than the target used
                elif st != s_["st"]:
                    bad = "AllArgumentsReachCdb"
                elif out == "ok" and ((d1, d2) != (s_["d1"], s_["d2"]) or view != s_["view"]):
                    bad = "DecodesWhatDeviceReturned"
                if bad:
                    chk.violation({"clause": bad, "cls": "", "field": "", "method": "modepages:" + a, "set": b["tr"],
                                   "detail": {"step": n, "expected": s_, "observed": {"out": out, "sent": sent, "d1": d1, "d2": d2,
                                                                                     "view": view, "st": st, "target_decoded": str(tgt.last),
                                                                                     "wanted": str(want_last), "odd": [str(o) for o in tgt.odd[:3]]},
                                              "behaviour": [(x["act"], x["args"]) for x in b["steps"][:n + 1]]},
                                   "what": "ModePages.tla behaviour replayed"}, dedup=("ModePages", a, bad, b["tr"]))
                    break
            try:
                dev.close()
            except Exception:
                pass
            ev.case(("modepages", b["tr"], str([(x["act"], x["args"]) for x in b["steps"]])[:600]))
    finally:
        for f_ in os.listdir(d):
            os.unlink(os.path.join(d, f_))
        os.rmdir(d)
    ev.cov["modepages_behaviours_replayed"] = len(beh)
    ev.cov["modepages_steps"] = steps
    ev.cov["modepages_steps_by_action"] = acts
