"""Shared machinery of C01, C02, C03 and C17: spec cases from MC_T10Cdb replayed into
the constructors / static codecs, and recorded calls judged by Trace_Command."""
from ..core import cmds, tlc
from ..core.values import num, unnum

CLAUSES = {
    "C01": {"CdbLength", "WireFormat", "OtherBitsZero", "Constructible", "OpcodeOffered"},
    "C02": {"DecEnc", "EncDec", "DecodeReportsEveryField", "CodecRaised"},
    "C03": {"ByteBuffers", "DataInLength", "DataOutLength", "DataOutIsCallersData"},
    "C17": {"RefusedBeforeSend", "RefusedLeavesNothing"},
}


def spec_cases(chk, label):
    cfg = "MC_T10Cdb_quick.cfg" if chk.quick else "MC_T10Cdb_thorough.cfg"
    r = tlc.run("MC_T10Cdb", cfg, workers=16, timeout=3000, name=label)
    if not r.ok:
        raise tlc.TLCFailure("MC_T10Cdb: the transcription violates its own law %s\n%s"
                             % (r.violated, r.counterexample[:3000]))
    chk.ev.tlc("MC_T10Cdb/" + cfg, r)
    cases = [v for t, v in r.prints if t == "CASE"]
    for c in cases:
        if c["sa"] == []:
            c["sa"] = None
        else:
            c["sa"] = c["sa"][0]
        if isinstance(c["a"], list):      # ToJson of an empty function
            c["a"] = {}
        if isinstance(c["dict"], list):
            c["dict"] = {}
    if len(cases) < 1000:
        raise tlc.TLCFailure("MC_T10Cdb exported only %d cases" % len(cases))
    return cases


def _i(x):
    """int of a decoded field; whatever cannot be one compares unequal to every expectation"""
    try:
        return int(x)
    except Exception:
        return -1


def _full_dict(c):
    d = {k: unnum(v) for k, v in c["dict"].items()}
    d["opcode"] = c["opv"]
    if c["sa"] is not None:
        d["service_action"] = c["sa"]
    return d


def replay(chk, cases, want, sets_of=None):
    """spec -> code.  `want`: clause names this property reports."""
    ev = chk.ev
    n = 0
    benign_err = {}
    events = []
    for c in cases:
        name = c["cls"]
        a = cmds.int_args(c["a"])
        sets = sorted(c["sets"])
        # ---- constructor level (C01, C03, C17)
        if want & (CLAUSES["C01"] | CLAUSES["C03"] | CLAUSES["C17"]) and c["ctor"]:
            for s in sets:
                if cmds.opcode(name, s) is None:
                    continue     # the library's table for this set does not offer the command (C13/C16 territory)
                cmd, exc, passed = cmds.construct(name, s, a, c["ph"])
                events.append(cmds.event(name, s, a, c["ph"], cmd, exc, passed))
                n += 1
                ev.case((name, s, str(sorted(a.items()))), nontrivial=any(a.values()))
                base = {"cls": name, "set": s, "args": a, "what": "MC_T10Cdb case"}
                if c["refuse"]:
                    if exc != c["refuse"] and "RefusedBeforeSend" in want:
                        chk.violation(dict(base, clause="RefusedBeforeSend", field="blocksize",
                                           detail={"expected": c["refuse"], "observed": exc or "constructed"}),
                                      dedup=("RefusedBeforeSend", name, s, exc))
                    continue
                if exc:
                    if "Constructible" in want:
                        chk.violation(dict(base, clause="Constructible", field="", detail={"raised": exc}),
                                      dedup=("Constructible", name, s, exc))
                    continue
                if c["ph"] == "out_data" and not a.get("tl") and a.get("blocksize") and "WireFormat" in want:
                    # TRANSFER LENGTH 0 with the caller's (larger) buffer handed over all the same: the CDB says 0
                    try:
                        K0 = cmds.klass(name)
                        kw0 = {k: v for k, v in a.items() if not k.startswith("#")}
                        kw0["data"] = cmds.pattern(a["blocksize"] * 2, 3)
                        got0 = list(K0(cmds.opcode(name, s), **kw0).cdb)
                    except Exception as ex:
                        got0 = "raised " + type(ex).__name__
                    if got0 != c["cdb"]:
                        chk.violation(dict(base, clause="WireFormat", field="transfer length 0 with a data buffer",
                                           detail={"expected": c["cdb"], "observed": got0}),
                                      dedup=("WireFormat", name, s, "tl0data"))
                got = list(cmd.cdb)
                if got != c["cdb"]:
                    cl = "CdbLength" if len(got) != len(c["cdb"]) else "WireFormat"
                    if cl in want:
                        diff = [i for i in range(min(len(got), len(c["cdb"]))) if got[i] != c["cdb"][i]]
                        chk.violation(dict(base, clause=cl, field="bytes %s" % diff,
                                           detail={"expected": c["cdb"], "observed": got}),
                                      dedup=(cl, name, s, str(diff)))
                di, do = cmd.datain, cmd.dataout
                if not (isinstance(di, (bytes, bytearray)) and isinstance(do, (bytes, bytearray))):
                    if "ByteBuffers" in want:
                        chk.violation(dict(base, clause="ByteBuffers", field="",
                                           detail={"datain": type(di).__name__, "dataout": type(do).__name__}),
                                      dedup=("ByteBuffers", name, type(di).__name__, type(do).__name__))
                    continue
                if c["ph"] == "readcd":
                    pass      # "at least" rule: judged by Trace_Command
                elif len(di) != c["dinlen"] and "DataInLength" in want:
                    chk.violation(dict(base, clause="DataInLength", field="",
                                       detail={"expected": c["dinlen"], "observed": len(di)}),
                                  dedup=("DataInLength", name, s, c["dinlen"] - len(di)))
                if c["ph"] != "out_list" and len(do) != c["doutlen"] and "DataOutLength" in want:
                    chk.violation(dict(base, clause="DataOutLength", field="",
                                       detail={"expected": c["doutlen"], "observed": len(do)}),
                                  dedup=("DataOutLength", name, s, c["doutlen"] - len(do)))
                elif passed is not None and c["doutlen"] and bytes(do) != bytes(passed) \
                        and "DataOutIsCallersData" in want:
                    chk.violation(dict(base, clause="DataOutIsCallersData", field="", detail={}),
                                  dedup=("DataOutIsCallersData", name, s))
        # ---- C03 when the caller re-aims a command object: cmd.cdb = cmd.build_cdb(...) with the same fields must
        # leave CDB and buffers in agreement (recorded as one more event, judged by Trace_Command)
        if want & CLAUSES["C03"] and c["ctor"] and not c["refuse"]:
            for s in sets:
                if cmds.opcode(name, s) is None:
                    continue
                cmd, exc, passed = cmds.construct(name, s, a, c["ph"])
                if cmd is None:
                    break
                d = _full_dict(c)
                d["opcode"] = int(cmd.opcode.value)
                try:
                    cmd.cdb = cmd.build_cdb(**d)             # the caller re-aims the command ...
                    e = cmds.event(name, s, a, c["ph"], cmd, "", passed)
                    e["rebuilt"] = 1
                    events.append(e)
                    cmd.build_cdb(**d)                       # ... and a call whose result is discarded
                    e = cmds.event(name, s, a, c["ph"], cmd, "", passed)
                    e["rebuilt"] = 2
                    events.append(e)
                    n += 2
                    # the command is executed (the transport fills the data-in buffer in place) and decoded: the
                    # buffers it carries into a second execution are still the ones the CDB announces
                    if len(cmd.datain) and hasattr(cmd, "unmarshall_datain"):
                        for fill in (0, 0xFF):
                            cmd.datain[:] = bytes([fill]) * len(cmd.datain)
                            try:
                                cmd.unmarshall(**({"evpd": a["evpd"]} if name == "Inquiry" and "evpd" in a else {}))
                            except Exception:
                                pass
                            e = cmds.event(name, s, a, c["ph"], cmd, "", passed)
                            e["rebuilt"] = 3
                            events.append(e)
                            n += 1
                except Exception as ex:
                    chk.violation({"cls": name, "set": s, "args": a, "clause": "ByteBuffers", "field": "",
                                   "detail": {"raised": type(ex).__name__}, "what": "cmd.cdb = cmd.build_cdb(...) on a built command"},
                                  dedup=("ByteBuffers", name, "rebuild", type(ex).__name__))
                break
        # ---- C02 on the constructor route: the CDB a constructor built decodes to the values it was built
        # from, and building again on the same object gives the same bytes and leaves cmd.cdb alone
        if want & CLAUSES["C02"] and c["ctor"] and not c["refuse"]:
            for s in sets:
                if cmds.opcode(name, s) is None:
                    continue
                cmd, exc, passed = cmds.construct(name, s, a, c["ph"])
                if cmd is None:
                    break
                d = _full_dict(c)
                d["opcode"] = int(cmd.opcode.value)
                n += 1
                base = {"cls": name, "set": s, "args": a, "dict": d, "what": "MC_T10Cdb case (constructor, then codec)"}
                try:
                    out = cmd.unmarshall_cdb(bytearray(cmd.cdb))
                    bad = sorted(k for k in d if k in out and _i(out[k]) != d[k])
                    if bad:
                        chk.violation(dict(base, clause="DecEnc", field=",".join(bad),
                                           detail={"expected": {k: d[k] for k in bad}, "observed": {k: _i(out[k]) for k in bad}}),
                                      dedup=("DecEnc", name, "ctor", ",".join(bad)))
                    first = bytes(cmd.cdb)
                    again = bytes(cmd.build_cdb(**d))
                    if again != first or bytes(cmd.cdb) != first:
                        chk.violation(dict(base, clause="EncDec", field="second build_cdb on the same object",
                                           detail={"first": list(first), "again": list(again), "cdb_after": list(cmd.cdb)}),
                                      dedup=("EncDec", name, "rebuild"))
                except Exception as ex:
                    chk.violation(dict(base, clause="CodecRaised", field="", detail={"raised": type(ex).__name__}),
                                  dedup=("CodecRaised", name, "ctor", type(ex).__name__))
                break
        # ---- dictionary level (C02; also reaches the high bits of allocation-coupled fields for C01)
        if want & CLAUSES["C02"] or ("WireFormat" in want and not c["ctor"]):
            K = cmds.klass(name)
            if name not in benign_err:
                try:
                    cmds.benign(name)
                    benign_err[name] = None
                except Exception as ex:
                    benign_err[name] = type(ex).__name__
            if benign_err[name]:
                continue          # class cannot be instantiated at all: reported by C05 (Constructible)
            cmds.benign(name)     # decode/encode "with its class": right after an instance of that class
            d = _full_dict(c)
            n += 1
            ev.case((name, "dict", str(sorted(d.items()))), nontrivial=any(v for k, v in d.items() if k != "opcode"))
            base = {"cls": name, "set": "", "dict": d, "what": "MC_T10Cdb case (dictionary level)"}
            try:
                got = list(K.marshall_cdb(dict(d)))
            except Exception as ex:
                got = "raised " + type(ex).__name__
            if got != c["cdb"]:
                cl = "EncDec" if want & CLAUSES["C02"] else "WireFormat"
                diff = [i for i in range(len(c["cdb"])) if not isinstance(got, str) and i < len(got) and got[i] != c["cdb"][i]]
                chk.violation(dict(base, clause=cl, field="bytes %s" % diff,
                                   detail={"expected": c["cdb"], "observed": got}),
                              dedup=(cl, name, str(diff) if not isinstance(got, str) else got))
            if want & CLAUSES["C02"]:
                cmds.benign(name)
                try:
                    out = K.unmarshall_cdb(bytearray(c["cdb"]))
                except Exception as ex:
                    chk.violation(dict(base, clause="CodecRaised", field="", detail={"raised": type(ex).__name__}),
                                  dedup=("CodecRaised", name, type(ex).__name__))
                    continue
                bad = sorted(k for k in d if k in out and _i(out[k]) != d[k])
                missing = sorted(k for k in d if k not in out)
                if bad:
                    chk.violation(dict(base, clause="DecEnc", field=",".join(bad),
                                       detail={"expected": {k: d[k] for k in bad}, "observed": {k: _i(out[k]) for k in bad}}),
                                  dedup=("DecEnc", name, ",".join(bad)))
                if missing:
                    chk.violation(dict(base, clause="DecodeReportsEveryField", field=",".join(missing), detail={}),
                                  dedup=("DecodeReportsEveryField", name, ",".join(missing)))
    ev.replayed(n)
    return events


def rand_args(rng, spec_case_by_class, name):
    """uniformly random in-range arguments for a class, derived from the widths visible in
    the spec's own 'max' cases (so no layout knowledge is needed here)."""
    mx = spec_case_by_class[name]["max"]
    lim = spec_case_by_class[name]["lim"]
    a = {}
    for k, m in mx.items():
        if k in lim:
            a[k] = rng.choice(sorted(lim[k]))
        elif rng.random() < 0.15:
            a[k] = rng.choice([0, m])
        else:
            a[k] = rng.randint(0, m)
    return a


def widths(cases):
    """per class: the maximum each argument takes over the exported cases and, for
    code-limited arguments, the set of values"""
    out = {}
    for c in cases:
        d = out.setdefault(c["cls"], {"max": {}, "vals": {}, "ph": c["ph"], "sets": sorted(c["sets"])})
        for k, v in c["a"].items():
            x = unnum(v)
            d["max"][k] = max(d["max"].get(k, 0), x)
            d["vals"].setdefault(k, set()).add(x)
    for name, d in out.items():
        d["lim"] = {k: vs for k, vs in d["vals"].items()
                    if len(vs) <= 8 and d["max"][k] > 1 and (d["max"][k] & (d["max"][k] + 1)) != 0}
    return out


def judge(chk, events, want, label):
    vs, st = tlc.judge_traces("Trace_Command", "Trace_Command.cfg", events, name=label)
    chk.ev.judged("Trace_Command", st, len(events))
    for i, clause, detail in vs:
        if clause not in want:
            continue
        e = events[i]
        chk.violation({"clause": clause, "cls": e["cls"], "set": e.get("set", ""), "field": detail if clause in (
            "WireFormat", "DecEnc", "DecodeReportsEveryField") else "", "detail": detail, "event": e,
            "what": e["ev"] + " event"},
            dedup=(clause, e["cls"], e.get("set", ""), detail if len(str(detail)) < 80 else ""))
    return vs
