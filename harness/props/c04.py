"""C04 - well-formed device responses are decoded to the values the device sent."""
import json
import random

from ..core import datafmt, tlc
from ..core.values import flatten as flatten_
from ..core.runner import main

FORMATS = sorted(datafmt.GEN)


def run(chk, replay=None):
    ev = chk.ev
    ev.assumptions += [
        "T10Data.tla is a transcription of the parameter-data tables of SPC-4/SBC-3/SMC-3/MMC-6 from memory; buffers "
        "are produced by untrusted Python generators and TLC re-derives every expected value from the bytes; buffers "
        "whose embedded lengths are not honest are skipped (counted as unjudged)",
        "REPORT PRIORITY: the TransportID of a descriptor is judged as the bytes it occupies (the library returns them undecoded); READ CD is judged for the selections F8h / 10h / 20h on CD-DA, Mode 1, Mode 2 "
        "formless and Mode 2 form 1 sectors and for the contiguous runs of SYNC / header / sub-header / user data / EDC-ECC "
        "of Mode 1 (7), Mode 2 formless (4) and Mode 2 form 1 (9), with every C2 / sub-channel selection (Mode 2 form 2 is "
        "not judged: sizes not reconstructed with certainty)",
        "descriptor counts 0..3, slack 0/1/7 bytes",
    ]
    if replay is not None:
        chk.only(replay, keys=("clause", "fmt", "path"))
    rng = random.Random(chk.seed)
    n = 60 if chk.quick else 30000
    events = []
    for fmt in FORMATS:
        dec = datafmt.decoder(fmt)
        for i in range(n):
            buf = datafmt.GEN[fmt](rng)
            events.append(datafmt.unmarshal_event(fmt, buf, dec))
            ev.case((fmt, bytes(buf)), nontrivial=any(buf))
    # a READ ELEMENT STATUS page longer than 65535 bytes (three-byte counts really needed)
    for _ in range(1 if chk.quick else 3):
        buf = datafmt.big_element_status(rng)
        events.append(datafmt.unmarshal_event("ReadElementStatus", buf))
        ev.case(("ReadElementStatus", "big", len(buf)))
    # the other observation point: ONE command object per format, its data-in buffer re-filled in place by the
    # "transport" (as SCSIDevice / ISCSIDevice do) and cmd.unmarshall() called again: cmd.result is the new answer
    from ..core import cmds
    INST = {"ReadCapacity10": "ReadCapacity10", "ReadCapacity16": "ReadCapacity16", "ReportLuns": "ReportLuns",
            "GetLBAStatus": "GetLBAStatus", "ModeSense6": "ModeSense6", "ModeSense10": "ModeSense10",
            "RtpgLen": "ReportTargetPortGroups", "RtpgExt": "ReportTargetPortGroups", "PrinKeys": "PersistentReserveInReadKeys",
            "PrinReservation": "PersistentReserveInReadReservation", "PrinCapabilities": "PersistentReserveInReportCapabilities",
            "PrinFullStatus": "PersistentReserveInReadFullStatus", "Rdi": "ReadDiscInformation",
            "ReadElementStatus": "ReadElementStatus", "ReportPriority": "ReportPriority", "InquiryStd": "Inquiry"}
    for fmt in FORMATS:
        try:
            if fmt.startswith("Vpd"):
                cmd = cmds.klass("Inquiry")(cmds.opcode("Inquiry", "spc"), 1, int(fmt[3:], 16), 64)
            else:
                cmd = cmds.benign(INST[fmt])
        except Exception:
            continue            # class cannot be instantiated: reported by C05 / C13
        for i in range(6 if chk.quick else 400):
            buf = datafmt.GEN[fmt](rng, 1) if fmt.startswith("ModeSense") and i % 2 else datafmt.GEN[fmt](rng)
            e = {"ev": "Unmarshal", "fmt": fmt, "bytes": list(buf), "out": {}, "exc": "", "route": "cmd.unmarshall()"}
            try:
                cmd.datain[:] = buf
                cmd.unmarshall(**({"evpd": 1} if fmt.startswith("Vpd") else {}))      # as SCSI.inquiry does
                e["out"] = flatten_(cmd.result) if cmd.result is not None else {}
            except Exception as ex:
                e["exc"] = type(ex).__name__
            if not e["out"]:
                e["out"] = {"#empty": []}
            events.append(e)
            ev.case((fmt, "instance", bytes(buf)))
    # READ CD sector layouts (decoder needs the request parameters)
    from ..core.lib import mod
    from ..core.values import flatten
    K = mod("pyscsi.pyscsi.scsi_cdb_readcd").ReadCd
    for est in (1, 2, 3, 4):
        for mcsb in (0x1F, 0x02, 0x04) + {4: (8, 10, 12, 14, 30, 15, 3, 11, 28), 2: (6, 7, 20, 22, 23, 3, 16), 3: (6, 20, 22, 16)}.get(est, ()):
            for c2ei in (0, 1, 2):
                for scsb in (0, 2, 4):
                    for tl in ((1, 2) if chk.quick else (1, 2, 3)):
                        lba = rng.choice([0, 7, 16])
                        stride = 3072
                        buf = bytearray(rng.getrandbits(8) for _ in range(tl * stride))
                        e = {"ev": "Unmarshal", "fmt": "ReadCd", "bytes": list(buf), "out": {}, "exc": "",
                             "par": {"est": est, "mcsb": mcsb, "c2ei": c2ei, "scsb": scsb, "tl": tl, "lba": lba}}
                        try:
                            live = bytearray(buf)
                            K.unmarshall_datain(live, lba=lba, tl=tl, est=est, mcsb=mcsb, c2ei=c2ei, scsb=scsb)
                            # decoded a second time from the same buffer object (cmd.unmarshall() again): same answer
                            r = K.unmarshall_datain(live, lba=lba, tl=tl, est=est, mcsb=mcsb, c2ei=c2ei, scsb=scsb)
                            e["out"] = flatten({str(k): v for k, v in r.items()}) or {"#empty": []}
                            if bytes(live) != bytes(buf):
                                e["exc"] = "DecoderChangedTheBuffer"
                            else:
                                # the buffer is used again (the next READ CD of a ripping loop): the sectors decoded
                                # before still say what the device had sent then
                                live[:] = bytes((x ^ 0xFF) & 0xFF for x in live)
                                try:
                                    again = flatten({str(k): v for k, v in r.items()}) or {"#empty": []}
                                except Exception:
                                    again = None
                                if again != e["out"]:
                                    e["exc"] = "ResultFollowsTheBuffer"
                        except Exception as ex:
                            e["exc"] = type(ex).__name__
                            e["out"] = {"#empty": []}
                        events.append(e)
                        ev.case(("ReadCd", est, mcsb, c2ei, scsb, tl))
    vs, st = tlc.judge_traces("Trace_Data", "Trace_Data.cfg", events, name="c04tr")
    ev.judged("Trace_Data", st, len(events))
    unj = {}
    for i, clause, detail in vs:
        e = events[i]
        if clause == "Unjudged":
            unj[e["fmt"]] = unj.get(e["fmt"], 0) + 1
            continue
        paths = []
        try:
            paths = sorted(json.loads(detail).get("paths", []))
        except Exception:
            pass
        # one finding per (format, leaf name): indices are normalised away
        import re
        leaf = sorted(set(re.sub(r"/\d+", "/*", p) for p in paths))
        if any(p.endswith("/#len") for p in leaf):
            leaf = [p for p in leaf if p.endswith("/#len")][:1]     # a wrong count explains the leaves under it
        for lf in (leaf or [""]):
            chk.violation({"clause": clause, "cls": "", "field": "", "fmt": e["fmt"], "path": lf,
                           "detail": {"expected": detail[:1500], "bytes": e["bytes"], "exc": e["exc"],
                                      "got": {k: e["out"].get(k) for k in paths[:6]}}, "what": "Unmarshal event"},
                          dedup=(clause, e["fmt"], lf))
    ev.cov["unjudged_not_wellformed"] = unj
    ev.sample({"event": {k: events[5][k] for k in ("fmt", "bytes", "exc")}, "out": dict(list(events[5]["out"].items())[:6])})
    ev.cov["rule"] = ("%d generated responses for each of %d formats (%s): random/boundary field contents, 0-3 "
                      "descriptors, 0/1/7 bytes of slack, decoded by the public unmarshall routine, flattened and "
                      "judged by Trace_Data (expected values re-derived from the bytes by T10Data!Parse). distinct by "
                      "(format, bytes)." % (n, len(FORMATS), ", ".join(FORMATS)))


if __name__ == "__main__":
    main("C04", run)
