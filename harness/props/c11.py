"""C11 - decoding device data always terminates, whatever the bytes."""
import random
import sys

from ..core import datafmt, tlc
from ..core.lib import REPO, mod
from ..core.runner import main

PREFIX = REPO.rstrip("/") + "/pyscsi"


class BudgetExceeded(BaseException):
    pass


def budget(n):
    return 2000 + 1000 * n


def run_budgeted(fn, n):
    """run fn() counting source lines executed inside the library; abort past the budget"""
    cnt = [0]
    lim = budget(n)

    def tracer(frame, event, arg):
        if not frame.f_code.co_filename.startswith(PREFIX):
            return None
        if event == "line":
            cnt[0] += 1
            if cnt[0] > lim:
                raise BudgetExceeded()
        return tracer
    outcome = "returned"
    sys.settrace(tracer)
    try:
        fn()
    except BudgetExceeded:
        outcome = "budget"
    except Exception as ex:
        outcome = "raised"
    finally:
        sys.settrace(None)
    return cnt[0], outcome


def tb_depth(fn):
    """entries in the traceback of the error fn() raises (0 when it returns)"""
    try:
        fn()
    except Exception as ex:
        n, tb = 0, ex.__traceback__
        while tb is not None:
            n, tb = n + 1, tb.tb_next
        return n
    return 0


def decoders():
    d = {f: datafmt.decoder(f) for f in datafmt.GEN}
    SCC = mod("pyscsi.pyscsi.scsi_sense").SCSICheckCondition
    d["Sense"] = lambda b: SCC(bytes(b))
    K = mod("pyscsi.pyscsi.scsi_cdb_readcd").ReadCd
    for (est, mcsb, c2ei, scsb) in ((1, 0x1F, 0, 0), (2, 0x1F, 1, 2), (3, 0x0E, 2, 4), (4, 0x1F, 0, 1), (5, 0x02, 1, 0)):
        d["ReadCd/%d/%02x/%d/%d" % (est, mcsb, c2ei, scsb)] = \
            (lambda b, e=est, m=mcsb, c=c2ei, s=scsb: K.unmarshall_datain(b, lba=7, tl=max(1, len(b) // 3072), est=e, mcsb=m, c2ei=c, scsb=s))
    Inq = mod("pyscsi.pyscsi.scsi_cdb_inquiry").Inquiry
    d["Vpd89"] = lambda b: Inq.unmarshall_datain(b, evpd=1)
    return d


def mutants(rng, base, quick):
    """hostile variants of a well-formed buffer: every byte of the first 48 forced to 00/01/FF/80,
    adjacent pairs forced to 0000/FFFF/0001, every truncation, random garbage"""
    n = len(base)
    lim = min(n, 24 if quick else 64)
    for i in range(lim):
        for v in (0x00, 0x01, 0xFF, 0x80):
            b = bytearray(base)
            b[i] = v
            yield b
    for i in range(lim - 1):
        for v in ((0, 0), (0xFF, 0xFF), (0, 1), (0, 4)):
            b = bytearray(base)
            b[i], b[i + 1] = v
            yield b
    for i in range(0, min(n, 40) + 1):
        yield bytearray(base[:i])
    for _ in range(4 if quick else 40):
        yield bytearray(rng.getrandbits(8) for _ in range(rng.choice([0, 1, 7, 8, 9, 36, 96, 260])))
    yield bytearray(b"\xFF" * 64)
    yield bytearray(64)


def run(chk, replay=None):
    ev = chk.ev
    ev.assumptions += [
        "work is measured in CPython 'line' events inside <repo>/pyscsi; the budget 2000 + 1000*len(buffer) is two orders "
        "of magnitude above the measured need of a terminating decoder",
        "returning or raising any exception is fine; only exceeding the budget is a violation - and an error that grows "
        "with every repetition of the same rejected response (allocation without bound over a session)",
        "READ CD is called with tl consistent with the buffer, as the facade does",
    ]
    if replay is not None:
        chk.only(replay, keys=("clause", "fmt"))
    r = tlc.run("Decoders", "MC_Decoders.cfg", workers=4, coverage=True, name="c11mc")
    if not r.ok:
        raise tlc.TLCFailure("Decoders.tla (guarded design) violated %s" % r.violated)
    ev.tlc("Decoders/MC_Decoders.cfg (guarded loops: Termination, VariantDecreases, WorkBounded)", r)
    r2 = tlc.run("Decoders", "MC_Decoders_unguarded.cfg", workers=1, name="c11mcu")
    ev.cov["unguarded_model_refuted"] = bool(r2.violated)       # documentation: stride 0 is the lasso
    rng = random.Random(chk.seed)
    dec = decoders()
    events = []
    for fmt in sorted(dec):
        gen = datafmt.GEN.get(fmt.split("/")[0])
        bases = []
        for _ in range(3 if chk.quick else 40):
            if gen is not None:
                bases.append(gen(rng))
            elif fmt == "Sense":
                bases.append(bytearray([rng.choice([0x70, 0x72, 0x71, 0x73])]) + bytearray(rng.getrandbits(8) for _ in range(31)))
            elif fmt.startswith("ReadCd"):
                bases.append(bytearray(rng.getrandbits(8) for _ in range(3072)))
            else:
                bases.append(datafmt.vpd(rng, 0x89, bytearray(rng.getrandbits(8) for _ in range(568))))
        for base in bases:
            for b in mutants(rng, base, chk.quick):
                steps, outcome = run_budgeted(lambda: dec[fmt](b), len(b))
                tb1 = tbn = 0
                if outcome == "raised" and (chk.quick or len(events) % 4 == 0):
                    # a device that keeps sending the same malformed response: what the error of the 12th
                    # rejection holds on to (its traceback, whose frames keep the buffers alive) is no more than
                    # what the first one held
                    tb1 = tb_depth(lambda: dec[fmt](b))
                    for _ in range(10):
                        tb_depth(lambda: dec[fmt](b))
                    tbn = tb_depth(lambda: dec[fmt](b))
                events.append({"fmt": fmt, "len": len(b), "steps": steps, "outcome": outcome, "bytes": list(b[:64]),
                               "tb1": tb1, "tbn": tbn})
                ev.case((fmt, bytes(b[:64]), len(b)))
    vs, st = tlc.judge_traces("Trace_Decoders", "Trace_Decoders.cfg",
                              [{k: e[k] for k in ("fmt", "len", "steps", "outcome", "tb1", "tbn")} for e in events], name="c11tr")
    ev.judged("Trace_Decoders", st, len(events))
    for i, clause, detail in vs:
        e = events[i]
        chk.violation({"clause": clause, "cls": "", "field": "", "fmt": e["fmt"].split("/")[0],
                       "detail": {"budget": detail, "event": e},
                       "what": "decoder exceeded its step budget" if clause == "Termination" else
                       "the error of a repeated rejection keeps growing"},
                      dedup=(clause, e["fmt"].split("/")[0]))
    worst = sorted(events, key=lambda e: -e["steps"] / (2000.0 + 1000 * e["len"]))[:3]
    ev.cov["largest_budget_fraction"] = [{"fmt": e["fmt"], "len": e["len"], "steps": e["steps"],
                                          "fraction": round(e["steps"] / (2000.0 + 1000 * e["len"]), 4)} for e in worst]
    ev.sample({"event": events[3]})
    ev.cov["rule"] = ("for each of %d decoders (24 response formats, ATA VPD, 5 READ CD layouts, sense): well-formed "
                      "buffers with every one of the first bytes forced to 00/01/80/FF, adjacent pairs forced to "
                      "0000/FFFF/0001/0004, every truncation, random garbage; each run under a line-event budget and "
                      "judged by Trace_Decoders. distinct by (decoder, first 64 bytes, length)." % len(dec))


if __name__ == "__main__":
    main("C11", run)
