"""C06 - parameter data survives a build/parse round trip and read-modify-write."""
import copy
import json
import random
import re

from ..core import cmds, datafmt, tlc
from ..core.devices import RecDevice
from ..core.lib import mod
from ..core.runner import main
from ..core.values import flatten
from .c05 import CONTROL, CTRLEXT, DISCON, ELEMENT

P = "pyscsi.pyscsi."


def builders():
    Inq = mod(P + "scsi_cdb_inquiry").Inquiry
    tab = {
        "InquiryStd": Inq, "Vpd80": Inq, "Vpd83": Inq, "Vpd86": Inq, "VpdB2": Inq, "VpdB3": Inq,
        "ModeSense6": mod(P + "scsi_cdb_modesense6").ModeSense6, "ModeSense10": mod(P + "scsi_cdb_modesense10").ModeSense10,
        "ReadCapacity10": mod(P + "scsi_cdb_readcapacity10").ReadCapacity10,
        "ReadCapacity16": mod(P + "scsi_cdb_readcapacity16").ReadCapacity16,
        "GetLBAStatus": mod(P + "scsi_cdb_getlbastatus").GetLBAStatus, "ReportLuns": mod(P + "scsi_cdb_report_luns").ReportLuns,
        "RtpgLen": mod(P + "scsi_cdb_report_target_port_groups").ReportTargetPortGroups,
        "RtpgExt": mod(P + "scsi_cdb_report_target_port_groups").ReportTargetPortGroups,
        "ReadElementStatus": mod(P + "scsi_cdb_readelementstatus").ReadElementStatus,
    }
    return tab


def norm(o):
    """nested result with bytearrays as bytes, for comparison"""
    if isinstance(o, dict):
        return {k: norm(v) for k, v in o.items()}
    if isinstance(o, (list, tuple)):
        return [norm(v) for v in o]
    if isinstance(o, (bytes, bytearray)):
        return bytes(o)
    return o


def run(chk, replay=None):
    ev = chk.ev
    ev.assumptions += [
        "value dictionaries are obtained by decoding generated well-formed responses (the decoders are judged by C04); "
        "what the library builds from them is judged by TLC against T10Data.tla, so the 'canonical byte strings' are "
        "images of the build direction that the specification accepts",
    ]
    if replay is not None:
        chk.only(replay, keys=("clause", "fmt", "path"))
    rng = random.Random(chk.seed)
    B = builders()
    n = 40 if chk.quick else 9000
    marsh, unm = [], []

    def viol(clause, fmt, path, detail):
        chk.violation({"clause": clause, "cls": "", "field": "", "fmt": fmt, "path": path, "detail": detail,
                       "what": "round trip"}, dedup=(clause, fmt, path))

    # several reports in flight: the caller parses a batch of READ ELEMENT STATUS reports (pages of different
    # element types), then rebuilds each and parses the batch again - the same values, whatever was built between
    # (first of all, so that nothing has been built in this process before the first parse)
    RES = B["ReadElementStatus"]
    decres = datafmt.decoder("ReadElementStatus")
    for it in range(max(4, n // 4)):
        batch = [datafmt.GEN["ReadElementStatus"](rng) for _ in range(4)]
        try:
            firsts = [decres(bytearray(b)) for b in batch]
        except Exception:
            continue
        ev.case(("res-batch", bytes(batch[0])))
        want = [norm(copy.deepcopy(x)) for x in firsts]
        rebuilt = []
        for x in firsts:
            try:
                rebuilt.append(bytes(RES.marshall_datain(copy.deepcopy(x))))
            except Exception:
                rebuilt.append(None)
        for q, b in enumerate(batch):
            try:
                again = decres(bytearray(b))
            except Exception as ex:
                viol("ParseIsFresh", "ReadElementStatus", "after builds: raised " + type(ex).__name__, {})
                continue
            if norm(again) != want[q]:
                f1, f2 = flatten(norm_b(want[q])), flatten(norm_b(again))
                diff = sorted(z for z in set(f1) | set(f2) if f1.get(z) != f2.get(z))
                viol("ParseIsFresh", "ReadElementStatus", "after builds: " + (re.sub(r"/\d+", "/*", diff[0]) if diff else "?"),
                     {"differs": diff[:8]})
            if rebuilt[q] is not None:
                try:
                    b2 = bytes(RES.marshall_datain(copy.deepcopy(again)))
                    if b2 != rebuilt[q]:
                        viol("BuildOfParse", "ReadElementStatus", "second build after other builds",
                             {"first": list(rebuilt[q])[:64], "second": list(b2)[:64]})
                except Exception as ex:
                    viol("BuildOfParse", "ReadElementStatus", "after builds: raised " + type(ex).__name__, {})
    for fmt in sorted(B):
        K = B[fmt]
        dec = datafmt.decoder(fmt)
        for it in range(n):
            b0 = datafmt.GEN[fmt](rng, 1) if fmt.startswith("ModeSense") else datafmt.GEN[fmt](rng)
            if fmt == "ReadElementStatus" and it == 0:
                b0 = datafmt.big_element_status(rng)         # a report and a page that need three-byte counts
            try:
                d = dec(bytearray(b0))
            except Exception:
                continue
            orig = copy.deepcopy(d)
            ev.case((fmt, bytes(b0)))
            # read - modify: the caller edits what it parsed; parsing the same response again must not see the edits
            keepd = copy.deepcopy(d)
            scramble(d)
            try:
                dagain = dec(bytearray(b0))
                if norm(dagain) != norm(orig):
                    f1, f2 = flatten(norm_b(orig)), flatten(norm_b(dagain))
                    diff = sorted(k for k in set(f1) | set(f2) if f1.get(k) != f2.get(k))
                    viol("ParseIsFresh", fmt, re.sub(r"/\d+", "/*", diff[0]) if diff else "?", {"differs": diff[:8]})
            except Exception as ex:
                viol("ParseIsFresh", fmt, "raised " + type(ex).__name__, {})
            d = keepd
            din = copy.deepcopy(d)
            e = {"ev": "Marshal", "fmt": fmt, "in": flatten(din) or {"#empty": []}, "bytes": [], "exc": ""}
            try:
                built = K.marshall_datain(copy.deepcopy(d))
                e["bytes"] = list(built)
                # the caller keeps its dictionary and builds again from the very same objects: same bytes
                live = copy.deepcopy(d)
                first = bytes(K.marshall_datain(live))
                again = bytes(K.marshall_datain(live))
                if first != bytes(built) or again != first:
                    viol("BuildOfParse", fmt, "second build from the same objects",
                         {"first": list(first)[:64], "again": list(again)[:64]})
            except Exception as ex:
                e["exc"] = type(ex).__name__
                marsh.append(e)
                continue
            marsh.append(e)
            # what was rebuilt from the parsed response must hold the response's values (TLC reads both)
            marsh.append({"ev": "Rebuild", "fmt": fmt, "orig": list(b0), "bytes": list(built), "in": {}})
            # parse what was built: the original values come back
            try:
                d2 = dec(bytearray(built))
            except Exception as ex:
                viol("ParseOfBuild", fmt, "raised " + type(ex).__name__, {"built": list(built)[:64]})
                continue
            if norm(d2) != norm(d):
                f1, f2 = flatten(norm_b(d)), flatten(norm_b(d2))
                diff = sorted(k for k in set(f1) | set(f2) if f1.get(k) != f2.get(k))
                viol("ParseOfBuild", fmt, re.sub(r"/\d+", "/*", diff[0]) if diff else "?", {"differs": diff[:8]})
            # rebuild what was parsed: byte for byte
            try:
                b2 = K.marshall_datain(copy.deepcopy(d2))
                if bytes(b2) != bytes(built):
                    viol("BuildOfParse", fmt, "", {"first": list(built)[:64], "second": list(b2)[:64]})
            except Exception as ex:
                viol("BuildOfParse", fmt, "raised " + type(ex).__name__, {})
    # read - modify - write of a field whose size changes: the caller parses a Device Identification page, gives
    # one designator a longer or shorter value and builds the page (the lengths in its dictionary are the ones
    # parsed, now stale: the library states the lengths of what it builds); TLC judges the built page against the
    # values meant, parsing it gives them back and the other designators are as they were
    Inq = B["Vpd83"]
    dec83 = datafmt.decoder("Vpd83")
    VAR = {0: ("vendor_specific",), 1: ("vendor_specific_id",), 8: ("scsi_name_string",)}
    for it in range(n):
        b0 = datafmt.GEN["Vpd83"](rng)
        try:
            d = dec83(bytearray(b0))
        except Exception:
            continue
        dds = d.get("designator_descriptors", [])
        idx = [k for k, x in enumerate(dds) if x.get("designator_type") in VAR
               and isinstance(x.get("designator"), dict) and VAR[x["designator_type"]][0] in x["designator"]]
        if not idx:
            continue
        k = rng.choice(idx)
        key = VAR[dds[k]["designator_type"]][0]
        old = dds[k]["designator"][key]
        if not isinstance(old, (bytes, bytearray)):
            continue
        newv = bytearray(old) + bytearray(rng.choice([b"-r", b"-replica", b"\0\0\0\0"])) if rng.getrandbits(1) or len(old) < 6 \
            else bytearray(old[:len(old) - rng.choice([1, 2, 4])])
        if dds[k]["designator_type"] == 8:
            newv = bytearray(newv.rstrip(b"\0") or b"x")
            newv += b"\0" * (4 - len(newv) % 4 if len(newv) % 4 else 0)          # name strings are padded to 4
        dds[k]["designator"][key] = newv
        meant = copy.deepcopy(d)
        delta = len(newv) - len(old)
        if "designator_length" in meant["designator_descriptors"][k]:
            meant["designator_descriptors"][k]["designator_length"] += delta
        if "page_length" in meant:
            meant["page_length"] += delta
        ev.case(("Vpd83-resize", bytes(b0), k, bytes(newv)))
        e = {"ev": "Marshal", "fmt": "Vpd83", "in": flatten(meant) or {"#empty": []}, "bytes": [], "exc": ""}
        try:
            built = Inq.marshall_datain(copy.deepcopy(d))
            e["bytes"] = list(built)
        except Exception as ex:
            e["exc"] = type(ex).__name__
            marsh.append(e)
            continue
        marsh.append(e)
        try:
            d2 = dec83(bytearray(built))
        except Exception as ex:
            viol("ParseOfBuild", "Vpd83", "resized designator: raised " + type(ex).__name__, {"built": list(built)[:96]})
            continue
        if norm(d2) != norm(meant):
            f1, f2 = flatten(norm_b(meant)), flatten(norm_b(d2))
            diff = sorted(q for q in set(f1) | set(f2) if f1.get(q) != f2.get(q))
            viol("ParseOfBuild", "Vpd83", "resized designator: " + (re.sub(r"/\d+", "/*", diff[0]) if diff else "?"),
                 {"differs": diff[:8], "built": list(built)[:96]})
    # TransportIDs
    FS = mod(P + "scsi_cdb_persistentreservein").PersistentReserveInReadFullStatus
    from .c05 import transport_id
    for _ in range(n):
        t = transport_id(rng)
        try:
            raw = FS.marshall_transport_id(copy.deepcopy(t))
            back = FS.unmarshall_transport_id(bytearray(raw))
            again = FS.marshall_transport_id(copy.deepcopy(back))
        except Exception as ex:
            viol("ParseOfBuild", "TransportID", "raised " + type(ex).__name__, {"tid": str(t)})
            continue
        ev.case(("tid", str(t)))
        want = dict(t)
        want.setdefault("tpid_format", 0)
        if norm(back) != norm(want):
            viol("ParseOfBuild", "TransportID", "protocol %d" % t["protocol_id"], {"in": str(want), "out": str(back)})
        if bytes(again) != bytes(raw):
            viol("BuildOfParse", "TransportID", "protocol %d" % t["protocol_id"], {})
    # canonical TransportIDs (generator output that TLC accepts as exact) are rebuilt byte for byte
    for _ in range(n):
        raw0 = datafmt.transport_id(rng)
        if raw0[0] & 0x0F != 5:
            # canonical: reserved bytes zero (name fields FC/1394 8-15, RDMA 8-23, SAS 4-11)
            keep = {0: range(8, 16), 3: range(8, 16), 4: range(8, 24), 6: range(4, 12)}[raw0[0] & 0x0F]
            raw0 = bytearray([raw0[0] & 0x0F] + [raw0[i] if i in keep else 0 for i in range(1, 24)])
        try:
            back = FS.unmarshall_transport_id(bytearray(raw0))
            again = FS.marshall_transport_id(copy.deepcopy(back))
        except Exception as ex:
            viol("BuildOfParse", "TransportID", "raised " + type(ex).__name__, {"bytes": list(raw0)})
            continue
        ev.case(("tid-canonical", bytes(raw0)))
        t2 = dict(back)
        if t2.get("protocol_id") == 5:
            t2["iscsi_text"] = t2["iscsi_name"] + (",i,0x" + t2["iscsi_initiator_session_id"] if t2.get("tpid_format") else "")
        marsh.append({"ev": "Marshal", "fmt": "TransportID", "in": flatten({"tid": t2}), "bytes": list(raw0), "exc": ""})
        if bytes(again) != bytes(raw0):
            viol("BuildOfParse", "TransportID", "protocol %d" % (raw0[0] & 0x0F), {"canonical": list(raw0), "rebuilt": list(again)})
    # read - modify - write of every field of every mode page through the facade (tools/swp.py)
    ec = mod("pyscsi.pyscsi.scsi_enum_command")
    SCSI = mod("pyscsi.pyscsi.scsi").SCSI
    for fields, gen_page in ((CONTROL, 0x0A), (DISCON, 0x02), (ELEMENT, 0x1D), (CTRLEXT, 0x0A)):
        for name, mx in fields.items():
            for trial in range(2 if chk.quick else 10):
                cur = {}

                def fill(cmd, cur=cur):
                    if cmd.cdb[0] == 0x1A:
                        while True:
                            b = datafmt.g_ModeSense6(rng, 1)
                            pc, spf = b[4 + b[3]] & 0x3F, b[4 + b[3]] & 0x40
                            if pc == gen_page and bool(spf) == (fields is CTRLEXT):
                                break
                        b = b[:b[0] + 1]
                        cmd.datain[:len(b)] = b
                        del cmd.datain[len(b):]
                        cur["sense"] = bytes(b)
                    elif cmd.cdb[0] == 0x15:
                        cur["select"] = bytes(cmd.dataout)
                dev = RecDevice(ec.spc, None)
                s = SCSI(dev)
                dev.fill = fill
                try:
                    cmdobj = s.modesense6(page_code=gen_page, sub_page_code=1 if fields is CTRLEXT else 0)
                    res = cmdobj.result
                    before = copy.deepcopy(res)
                    old = res["mode_pages"][0][name]
                    new = (old + 1 + rng.randrange(mx)) % (mx + 1) if mx > 0 else old
                    mt = None
                    if trial % 2:
                        # the caller edits through the command it holds (cmd.result[...] = v), a header field too
                        mt = (int(cmdobj.result["medium_type"]) + 1 + rng.randrange(254)) & 0xFF
                        cmdobj.result["medium_type"] = mt
                        cmdobj.result["mode_pages"][0][name] = new
                        res = cmdobj.result
                        before["medium_type"] = mt
                    else:
                        res["mode_pages"][0][name] = new
                    s.modeselect6(res)
                    if mt is not None and cur["select"][1] != mt:
                        viol("ReadModifyWrite", "ModeSense6", "medium_type",
                             {"set through cmd.result": mt, "written": cur["select"][1]})
                except Exception as ex:
                    viol("ReadModifyWrite", "ModeSense6", name, {"raised": repr(ex)[:100]})
                    continue
                ev.case(("rmw", name, trial))
                # what was written back is judged by TLC against the modified values ...
                marsh.append({"ev": "Marshal", "fmt": "ModeSelect6", "in": flatten(res), "bytes": list(cur["select"]), "exc": ""})
                # ... and differs from the canonical rebuild of what was read only where the field lives
                canon = bytes(mod(P + "scsi_cdb_modesense6").ModeSense6.marshall_datain(before))
                diff = [i for i in range(min(len(canon), len(cur["select"]))) if canon[i] != cur["select"][i]]
                if len(canon) != len(cur["select"]) or len(diff) > 2 or (new != old and not diff):
                    viol("ReadModifyWrite", "ModeSense6", name, {"bytes_changed": diff, "old": old, "new": new})
    vs, st = tlc.judge_traces("Trace_Data", "Trace_Data.cfg", marsh, name="c06tr")
    ev.judged("Trace_Data (what the library built)", st, len(marsh))
    for i, clause, detail in vs:
        e = marsh[i]
        paths = []
        try:
            paths = sorted(json.loads(detail).get("paths", []))
        except Exception:
            pass
        leaf = sorted(set(re.sub(r"/\d+", "/*", p) for p in paths))
        if any(p.endswith("/#len") for p in leaf):
            leaf = [p for p in leaf if p.endswith("/#len")][:1]
        for lf in (leaf or [detail if clause == "Constructible" else ""]):
            viol({"ValuePlacement": "BuildPlacesValues", "HonestLengths": "BuildHonestLengths",
                  "Constructible": "BuildAccepts", "RebuildKeepsValues": "BuildOfParse"}.get(clause, clause), e["fmt"], lf,
                 {"info": detail[:500], "bytes": e["bytes"][:64], "orig": e.get("orig", [])[:64],
                  "in": {k: e["in"].get(k) for k in paths[:4]}})
    ev.sample({"event": {k: marsh[0][k] for k in ("fmt", "bytes")}})
    ev.cov["rule"] = ("%d value dictionaries per structure with both directions (%s, TransportIDs): build judged by TLC "
                      "(T10Data), parse-of-build equals the values, build-of-parse equals the bytes and holds the values TLC reads in "
                      "the device's response; read-modify-write of "
                      "every field of the four mode pages through SCSI.modesense6 / modeselect6 with a recording device. "
                      "distinct by (format, response bytes)." % (n, ", ".join(sorted(B))))


def scramble(o):
    """edit a parsed result in place, everywhere"""
    if isinstance(o, dict):
        for k in list(o):
            v = o[k]
            if isinstance(v, bool) or isinstance(v, int):
                o[k] = v ^ 1
            elif isinstance(v, bytearray):
                for i in range(len(v)):
                    v[i] ^= 0xFF
            elif isinstance(v, (dict, list)):
                scramble(v)
            elif isinstance(v, str):
                o[k] = v + "x"
    elif isinstance(o, list):
        for i, v in enumerate(o):
            if isinstance(v, int):
                o[i] = v ^ 1
            else:
                scramble(v)


def norm_b(o):
    if isinstance(o, dict):
        return {k: norm_b(v) for k, v in o.items()}
    if isinstance(o, (list, tuple)):
        return [norm_b(v) for v in o]
    return o


if __name__ == "__main__":
    main("C06", run)
