"""C14 - operation codes, service actions and status codes are the T10 assignments."""
from ..core import tlc
from ..core.lib import mod
from ..core.runner import main

SETS = ("spc", "sbc", "ssc", "smc", "mmc")


def observe():
    """code -> spec: one event per table entry / per operation code value."""
    ec = mod("pyscsi.pyscsi.scsi_enum_command")
    cmd = mod("pyscsi.pyscsi.scsi_command")
    opc = mod("pyscsi.pyscsi.scsi_opcode")
    ev = []
    for s in SETS:
        table = getattr(ec, s)
        for name in table.keys:
            op = getattr(table, name)
            ev.append({"ev": "Lookup", "set": s, "name": name, "value": int(op.value)})
            sa = op.serviceaction
            for k in (sa.keys if sa is not None else []):
                ev.append({"ev": "SA", "set": s, "op": name, "opvalue": int(op.value), "name": k,
                           "value": int(getattr(sa, k))})
    for k in ec.SCSI_STATUS.keys:
        ev.append({"ev": "Status", "name": k, "value": int(getattr(ec.SCSI_STATUS, k))})
    # an application tries to add names that are taken (refused, as documented): every table still says the same
    for s in SETS:
        table = getattr(ec, s)
        for name in list(table.keys)[::7]:
            try:
                table.add(name, opc.OpCode(name, (int(getattr(table, name).value) + 1) & 0xFF, {}))
            except Exception:
                pass
            ev.append({"ev": "Lookup", "set": s, "name": name, "value": int(getattr(table, name).value)})
    for k in list(ec.SCSI_STATUS.keys):
        try:
            ec.SCSI_STATUS.add(k, int(getattr(ec.SCSI_STATUS, k)) + 1)
        except Exception:
            pass
        ev.append({"ev": "Status", "name": k, "value": int(getattr(ec.SCSI_STATUS, k))})
    # an application adapts ONE set to a quirky device through the public API (the value setter of an entry, add /
    # remove on its service-action table): the entries of the same name in the OTHER sets still say what T10 says
    for s in SETS:
        table = getattr(ec, s)
        for name in list(table.keys):
            op = getattr(table, name)
            sa = op.serviceaction
            old = int(op.value)
            removed = None
            try:
                op.value = (old + 0x51) & 0xFF
                if sa is not None and len(list(sa.keys)):
                    k0 = list(sa.keys)[0]
                    removed = (k0, getattr(sa, k0))
                    sa.remove(k0)
                    sa.add("VENDOR_QUIRK", 0x1F)
                for s2 in SETS:
                    t2 = getattr(ec, s2)
                    if s2 == s or name not in t2.keys:
                        continue
                    op2 = getattr(t2, name)
                    ev.append({"ev": "Lookup", "set": s2, "name": name, "value": int(op2.value)})
                    sa2 = op2.serviceaction
                    for k in (sa2.keys if sa2 is not None else []):
                        ev.append({"ev": "SA", "set": s2, "op": name, "opvalue": int(op2.value), "name": k,
                                   "value": int(getattr(sa2, k))})
                    if removed is not None and sa2 is not None and (removed[0] not in sa2.keys or "VENDOR_QUIRK" in sa2.keys):
                        # the other set's service-action table lost / gained a name: reported as an entry that no
                        # longer has its T10 meaning (999 is no operation code)
                        ev.append({"ev": "Lookup", "set": s2, "name": name, "value": 999})
            finally:
                op.value = old
                if removed is not None:
                    try:
                        sa.remove("VENDOR_QUIRK")
                    except Exception:
                        pass
                    if removed[0] not in sa.keys:
                        sa.add(removed[0], removed[1])
    for v in range(256):
        o = opc.OpCode("X", v, {"a": 1})
        try:
            n = len(cmd.SCSICommand.init_cdb(o))
            exc = ""
        except Exception as ex:        # any refusal
            n, exc = 0, type(ex).__name__
        ev.append({"ev": "CdbLen", "op": v, "len": n, "exc": exc})
    # the same rule through the other public route, marshall_cdb of a dictionary, on ONE class for all 256
    # codes in three orders: the length must not depend on which code that class encoded before
    import random
    from ..core import cmds
    orders = {"Inquiry": list(range(256)), "Read16": list(range(255, -1, -1)), "TestUnitReady": list(range(256))}
    random.Random(14).shuffle(orders["TestUnitReady"])
    orders["Read10"] = list(range(256))
    for cls, order in sorted(orders.items()):
        K = cmds.klass(cls)
        if cls == "Read10":
            K.marshall_cdb({"lba": 1})       # this class first encodes a dictionary that names no operation code
        for v in order:
            try:
                n = len(K.marshall_cdb({"opcode": v}))
                exc = ""
            except Exception as ex:
                n, exc = 0, type(ex).__name__
            ev.append({"ev": "CdbLen", "op": v, "len": n, "exc": exc, "via": "marshall_cdb", "cls": cls})
    return ev


def _required_sa(chk, c, op):
    """spec -> code: service actions the standard attaches to this operation code"""
    need = c["sa"] if isinstance(c["sa"], dict) else {}
    have = op.serviceaction
    for k, v in need.items():
        got = getattr(have, k, None) if have is not None and k in have.keys else None
        if got != v:
            chk.violation({"clause": "T10ServiceAction", "set": c["set"], "name": c["name"] + "." + k,
                           "detail": {"expected": v, "observed": got}, "what": "service action of a named opcode"},
                          dedup=("T10ServiceAction", c["set"], c["name"], k))


def run(chk, replay=None):
    ev = chk.ev
    ev.assumptions += [
        "T10Opcodes.tla is a transcription of the T10 assignments from memory, cross-read against "
        "/usr/include/scsi/scsi.h and /usr/include/linux/cdrom.h; names it does not know are reported as unjudged",
    ]
    if replay is not None:
        # re-observe the working tree and report only the replayed (clause, set, name)
        want = (replay.get("clause"), replay.get("set", ""), replay.get("name"))
        orig = chk.violation

        def only(rec, dedup=None):
            if (rec.get("clause"), rec.get("set", ""), rec.get("name")) == want:
                return orig(rec, dedup)
            return False
        chk.violation = only
    r = tlc.run("MC_Opcodes", workers=4, coverage=True, name="c14mc")
    if not r.ok:
        raise tlc.TLCFailure("MC_Opcodes: transcription inconsistent (%s)\n%s" % (r.violated, r.counterexample[:2000]))
    ev.tlc("MC_Opcodes", r)
    cases = [v for t, v in r.prints if t == "CASE"]
    ec = mod("pyscsi.pyscsi.scsi_enum_command")
    cmd = mod("pyscsi.pyscsi.scsi_command")
    # spec -> code: every spec entry the library lists must carry the T10 value and CDB length
    listed = 0
    for c in cases:
        table = getattr(ec, c["set"])
        if c["name"] not in table.keys:
            continue
        listed += 1
        op = getattr(table, c["name"])
        ev.case(("spec", c["set"], c["name"]))
        if int(op.value) != c["value"]:
            chk.violation({"clause": "T10Value", "set": c["set"], "name": c["name"],
                           "detail": {"expected": c["value"], "observed": int(op.value)}, "what": "spec entry"},
                          dedup=("T10Value", c["set"], c["name"]))
            continue
        try:
            n = len(cmd.SCSICommand.init_cdb(op))
        except Exception as ex:
            n = "raised " + type(ex).__name__
        if n != c["len"]:
            chk.violation({"clause": "GroupLen", "set": c["set"], "name": c["name"],
                           "detail": {"expected": c["len"], "observed": n}})
        _required_sa(chk, c, op)
    # the generic entries the facade resolves by suffix ("9E", "A3") must carry the service actions it uses
    conv = mod("pyscsi.utils.converter")
    for g in [v for t, v in r.prints if t == "GENERIC"]:
        table = getattr(ec, g["set"])
        for op in conv.get_opcode(table, g["name"][-2:]):
            ev.case(("generic", g["set"], g["name"]))
            if int(op.value) != g["value"]:
                chk.violation({"clause": "GenericEntryValue", "set": g["set"], "name": g["name"],
                               "detail": {"expected": g["value"], "observed": int(op.value)}})
            _required_sa(chk, g, op)
            break
    ev.replayed(listed)
    ev.sample({"spec_case": cases[0]})
    # code -> spec (one shard: SameNameSameValue is a property of the whole walk)
    events = observe()
    vs, st = tlc.judge_traces("Trace_Opcodes", "Trace_Opcodes.cfg", events, shard=10 ** 6, name="c14tr")
    ev.judged("Trace_Opcodes", st, len(events))
    unjudged = []
    for i, clause, detail in vs:
        e = events[i]
        if clause == "Unjudged":
            unjudged.append("%s:%s" % (e.get("set", "status"), e["name"]))
            continue
        chk.violation({"clause": clause, "set": e.get("set", ""), "name": e.get("name", e.get("op")),
                       "detail": {"expected": detail, "observed": e.get("value", e.get("len"))},
                       "what": e["ev"], "events": [x for x in events[:i + 1] if x.get("name") == e.get("name") and x["ev"] == e["ev"]] or [e]},
                      dedup=(clause, e.get("set", ""), e.get("name", e.get("op"))))
    for e in events:
        ev.case((e["ev"], e.get("set", e.get("cls", "")), e.get("name", e.get("op")), e.get("opvalue", "")))
    ev.sample({"event": events[0]})
    ev.sample({"event": [e for e in events if e["ev"] == "SA"][0]})
    ev.sample({"event": events[-1]})
    ev.cov["exhaustive"] = True
    ev.cov["unjudged_names"] = sorted(set(unjudged))
    ev.cov["rule"] = ("every entry of the five opcode tables, every service-action entry of every OpCode, every status "
                      "name, and init_cdb plus marshall_cdb (one class, three orders) for all 256 operation code values, judged by Trace_Opcodes; every entry of "
                      "T10Opcodes.tla that the library lists compared in the other direction. Distinct by (kind, set, "
                      "name); all non-trivial. Names without a T10 value in the spec are listed under unjudged_names.")


if __name__ == "__main__":
    main("C14", run)
