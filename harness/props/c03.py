"""C03 - data buffers match the transfer the CDB announces."""
from ..core.runner import main
from . import cdb_common as cc
from .c01 import record_random


def run(chk, replay=None):
    chk.ev.assumptions += [
        "READ CD announces sectors, not bytes: the rule is len >= tl * (largest sector layout for the selected "
        "channels) and tl = 0 => len = 0",
        "ATA PASS-THROUGH with T_LENGTH = 3 (length in the TPSIU): the caller's extra_tl states the length",
        "constructor allocations are kept <= 256 KiB in replayed cases",
    ]
    if replay is not None:
        chk.only(replay)
    want = cc.CLAUSES["C03"]
    cases = cc.spec_cases(chk, "c03mc")
    ev1 = cc.replay(chk, cases, want)
    s = [c for c in cases if c["ph"] == "ata" and c["ctor"] and c["dinlen"]]
    chk.ev.sample({"spec_case": {k: s[0][k] for k in ("cls", "a", "dinlen", "doutlen")}})
    events = record_random(chk, cases, 40 if chk.quick else 4000)
    events = ev1 + events
    cc.judge(chk, events, want, "c03tr")
    chk.ev.sample({"event": events[len(events) // 3]})
    chk.ev.cov["rule"] = ("every constructible MC_T10Cdb case (42 classes, all ATA t_length/byte_block/t_type/t_dir "
                          "modes x lengths x block sizes): len(datain)/len(dataout)/buffer types against DinLen/DoutLen of "
                          "T10Cdb.tla; random argument tuples recorded and judged by Trace_Command. distinct by (class, "
                          "set, arguments).")


if __name__ == "__main__":
    main("C03", run)
