"""C18 - enumerations map names to values and back consistently under add/remove."""
import itertools
import random

from ..core import tlc
from ..core.lib import mod
from ..core.runner import main


def value_kinds():
    """per kind: four Python values, the 3rd and 4th EQUAL but distinct (Canon(4) = 3)"""
    opc = mod("pyscsi.pyscsi.scsi_opcode")
    o = opc.OpCode("X", 0x12, {"A": 1})

    class EqObj(object):       # OpCode-like payload with value equality
        def __init__(self, k):
            self.k = k

        def __eq__(self, other):
            return isinstance(other, EqObj) and other.k == self.k

        def __hash__(self):
            return hash(self.k)
    return {
        "int": [1, 2, 3, 3.0],
        "str": ["one", "two", "three", "".join(["th", "ree"])],
        "dict": [{"x": 1}, {"x": 2}, {"y": [1, {"z": 2}]}, {"y": [1, {"z": 2}]}],
        "opcode": [opc.OpCode("A", 1, {}), opc.OpCode("B", 2, {}), o, o],
        "mixed": [0, "", {"k": ()}, {"k": ()}],
        "eqobj": [EqObj(1), EqObj(2), EqObj(3), EqObj(3)],
        "falsy": [None, "", 0, 0.0],
        # an OpCode next to plain values: looking a plain value up compares it with the OpCode on the way
        "mixedop": [opc.OpCode("A", 1, {}), 7, (1, 2), tuple([1, 2])],
    }


class Driver(object):
    def __init__(self, kind, vals):
        self.E = mod("pyscsi.utils.enum").Enum
        self.vals = vals
        self.kind = kind
        self.live = {}

    def vid(self, x):
        for i, v in enumerate(self.vals):
            if x is v:
                return i + 1
        for i, v in enumerate(self.vals):
            if type(x) is type(v) and x == v:
                return i + 1
        return 99

    def items(self, k):
        e = self.live[k]
        try:
            return [[n, self.vid(getattr(e, n))] for n in e.keys]
        except Exception as ex:       # an enumeration that cannot even be listed: visible to the judge, not fatal here
            return [["#raised " + type(ex).__name__, 99]]

    def others(self, k):
        return {o: self.items(o) for o in self.live if o != k}

    def new(self, k, mapping, form):
        d = {n: self.vals[v - 1] for n, v in mapping}
        if form == "opcode":
            # an enumeration also comes into being as the service-action table of an OpCode
            self.live[k] = mod("pyscsi.pyscsi.scsi_opcode").OpCode("OP_" + k, 0xA3, d).serviceaction
        else:
            self.live[k] = self.E(d) if form == "dict" or not d else self.E(**d)
        return {"op": "new", "e": k, "items": self.items(k), "given": [[n, v] for n, v in mapping],
                "others": self.others(k), "form": form}

    def op(self, k, op, name="", v=0):
        e = self.live[k]
        try:
            if op == "add":
                e.add(name, self.vals[v - 1])
                res = "ok"
            elif op == "remove":
                e.remove(name)
                res = "ok"
            elif op == "get":
                try:
                    res = self.vid(getattr(e, name))
                    res = 3 if res == 4 else res          # values 3 and 4 are equal: canonical id
                except AttributeError:
                    res = 0
            elif op == "rev":
                res = e[self.vals[v - 1]]
            else:
                res = list(e.keys)
        except KeyError:
            res = "KeyError"
        except Exception as ex:
            res = "raised " + type(ex).__name__
        return {"op": op, "e": k, "name": name, "v": v, "res": res, "items": self.items(k), "others": self.others(k)}


NAMES = ("a", "_b", "c", "READ_10", "_RESERVED", "x__y")


def alphabet(names, nv):
    ops = [("keys", "", 0)]
    for n in names:
        ops += [("remove", n, 0), ("get", n, 0)]
        ops += [("add", n, v) for v in range(1, nv + 1)]
    ops += [("rev", "", v) for v in range(1, nv + 1)]
    return ops


def run(chk, replay=None):
    ev = chk.ev
    ev.assumptions += [
        "names are identifiers that do not start with '__' and do not collide with the container's own API "
        "(keys, add, remove, mro); values are ints, floats, strings, nested dicts, OpCode objects and objects with value "
        "equality - not callables (a callable value is outside the library's documented use)",
    ]
    if replay is not None:
        chk.only(replay, keys=("clause", "kind", "seq"))
    cfg = "MC_EnumSM_quick.cfg" if chk.quick else "MC_EnumSM_thorough.cfg"
    r = tlc.run("EnumSM", cfg, workers=16, coverage=True, timeout=1800, name="c18mc")
    if not r.ok:
        raise tlc.TLCFailure("EnumSM.tla violated %s\n%s" % (r.violated, r.counterexample[:2000]))
    for a in ("Add", "Remove", "Get", "RevOp", "Keys"):
        if r.coverage.get(a, (0, 0))[0] == 0:
            raise tlc.TLCFailure("EnumSM vacuous: %s never taken" % a)
    ev.tlc("EnumSM/" + cfg, r)
    kinds = value_kinds()
    rng = random.Random(chk.seed)
    events, index = [], []

    def history(kind, init, seq, form="dict"):
        d = Driver(kind, kinds[kind])
        out = [{"op": "reset"}]
        out.append(d.new("E1", init, form))
        # the bystander; every third history both start empty as service-action tables of two OpCodes
        if form == "opcode" and not init:
            out.append(d.new("E2", [], "opcode"))
        else:
            out.append(d.new("E2", [("a", 2), ("_b", 3)], "kwargs"))
        for (op, n, v, k) in seq:
            out.append(d.op(k, op, n, v))
        return out

    alpha = alphabet(("a", "_b"), 4)
    depth = 3 if chk.quick else 4
    inits = [[], [("a", 3), ("_b", 4)], [("_b", 4), ("a", 3)], [("a", 1), ("_b", 1)]]
    n_hist = 0
    for kind in (("int", "dict", "opcode", "mixedop") if chk.quick else sorted(kinds)):
        for init in inits if init_ok(kinds[kind]) else inits:
            for n in range(1, depth + 1):
                prod = itertools.product(alpha, repeat=n)
                if n == depth and chk.quick:
                    prod = rng.sample(list(prod), 1500)
                elif n == depth:
                    prod = rng.sample(list(prod), 40000)
                for seq in prod:
                    s = [(op, nm, v, "E1") for (op, nm, v) in seq]
                    h = history(kind, init, s, ("dict", "kwargs", "opcode")[n_hist % 3])
                    index += [(kind, str(init), str(seq))] * len(h)
                    events += h
                    n_hist += 1
                    ev.case((kind, str(init), str(seq)))
    # every way an enumeration comes into being x every value kind x every initial mapping (also one that gives every
    # value of the kind, the first of "falsy" being None): it holds exactly what it was given
    inits_all = inits + [[("a", 1), ("_b", 2), ("c", 3), ("READ_10", 4)], [("READ_10", 1)]]
    for kind in sorted(kinds):
        for init in inits_all:
            for form in ("dict", "kwargs", "opcode"):
                s = [("keys", "", 0, "E1")] + [("get", n, 0, "E1") for n, _ in init]
                h = history(kind, init, s, form)
                index += [(kind, str(init), "construct:" + form)] * len(h)
                events += h
                n_hist += 1
                ev.case((kind, str(init), "construct", form))
    # long random histories on three enumerations with more names
    alpha3 = alphabet(NAMES, 4)
    for kind in sorted(kinds):
        for _ in range(10 if chk.quick else 100):
            d = Driver(kind, kinds[kind])
            h = [{"op": "reset"}]
            for k in ("E1", "E2", "E3"):
                m = [(n, rng.randint(1, 4)) for n in rng.sample(NAMES, rng.randint(0, 5))]
                h.append(d.new(k, m, rng.choice(["dict", "kwargs", "opcode"])) if m else d.new(k, [], "opcode"))
            for _ in range(rng.randint(20, 200)):
                op, n, v = rng.choice(alpha3)
                h.append(d.op(rng.choice(("E1", "E2", "E3")), op, n, v))
            index += [(kind, "random", "")] * len(h)
            events += h
            n_hist += 1
            ev.case((kind, "random", n_hist))
    # the library's own enumerations: projection == the mapping they were built from
    lib_ok = library_enums(chk)
    # cut into shards at reset boundaries
    shards, cur, base = [], [], 0
    for i, e in enumerate(events):
        if e["op"] == "reset" and len(cur) > 4000:
            shards.append((base, cur))
            base, cur = i, []
        cur.append(e)
    shards.append((base, cur))
    import concurrent.futures as cf
    nst = {"states": 0, "transitions": 0, "shards": 0, "wall": 0.0}

    def judge(sh):
        return sh[0], tlc.judge_traces("Trace_EnumSM", "Trace_EnumSM.cfg", sh[1], shard=10 ** 9, procs=1, name="c18tr")
    with cf.ThreadPoolExecutor(max_workers=16) as ex:
        for b, (vs, st) in ex.map(judge, shards):
            for k in nst:
                nst[k] += st[k]
            for i, clause, detail in vs:
                gi = b + i
                kind, init, seq = index[gi]
                chk.violation({"clause": clause, "cls": "", "field": "", "kind": kind, "seq": seq, "init": init,
                               "detail": {"event": events[gi], "expected": detail}, "what": "Enum operation"},
                              dedup=(clause, kind, str(events[gi].get("op")), str(events[gi].get("res"))))
    ev.judged("Trace_EnumSM", nst, len(events))
    ev.sample({"history": events[1:6]})
    ev.cov["library_enums_checked"] = lib_ok
    ev.cov["rule"] = ("all operation sequences over {add, remove, get, reverse lookup, keys} x 2 names x 4 value ids (two "
                      "equal) up to length %d (the longest sampled) from 4 initial mappings, dict and keyword form, with a "
                      "bystander enumeration, for value kinds int/float, str, nested dict, OpCode, mixed falsy, value-equal "
                      "objects; random histories of 20-200 operations on 3 enumerations; every step validated by "
                      "Trace_EnumSM (result, ordered projection, bystanders unchanged). distinct by (kind, initial mapping, "
                      "sequence)." % depth)


def init_ok(vals):
    return True


def library_enums(chk):
    """every Enum the library itself builds exposes exactly the mapping it was built from"""
    n = 0
    E = mod("pyscsi.utils.enum").Enum
    for modname, pairs in (
        ("pyscsi.pyscsi.scsi_enum_command", [("spc", "spc_opcodes"), ("sbc", "sbc_opcodes"), ("ssc", "ssc_opcodes"),
                                             ("smc", "smc_opcodes"), ("mmc", "mmc_opcodes"), ("SCSI_STATUS", "scsi_status")]),
        ("pyscsi.pyscsi.scsi_enum_inquiry", [("VPD", "_vpds"), ("DESIGNATOR", "_designator"), ("NAA", "_naa"),
                                             ("DEVICE_TYPE", "_device_types"), ("CODE_SET", "_code_set")]),
        ("pyscsi.pyscsi.scsi_enum_modesense", [("PAGE_CODE", "page_code"), ("PC", "pc")]),
        ("pyscsi.pyscsi.scsi_enum_persistentreserve", [("PR_TYPE", "pr_type"), ("PROTOCOL_ID", "protocol_id")]),
        ("pyscsi.pyscsi.scsi_enum_readelementstatus", [("ELEMENT_TYPE", "_element_type")]),
    ):
        m = mod(modname)
        for en, dn in pairs:
            e, d = getattr(m, en), getattr(m, dn)
            n += 1
            chk.ev.case(("lib", modname, en))
            got = [(k, getattr(e, k)) for k in e.keys]
            if [k for k, _ in got] != list(d.keys()) or any(v is not d[k] and v != d[k] for k, v in got):
                chk.violation({"clause": "KeysAreNames", "cls": "", "field": en, "kind": "library", "seq": "",
                               "detail": {"enum": en, "keys": [k for k, _ in got][:10]}, "what": "library enumeration"})
            for k, v in d.items():
                try:
                    back = e[v]
                except Exception as ex:
                    back = "raised " + type(ex).__name__
                first = [kk for kk, vv in d.items() if vv == v][0]
                if back != first:
                    chk.violation({"clause": "RevSound", "cls": "", "field": en, "kind": "library", "seq": "",
                                   "detail": {"enum": en, "value": repr(v)[:60], "got": back, "expected": first},
                                   "what": "library enumeration"}, dedup=("RevSound", en, k))
    return n


if __name__ == "__main__":
    main("C18", run)
