"""C10 - the bit-field codec obeys its algebraic laws for every layout."""
import itertools
import random

from ..core import tlc
from ..core.lib import converter
from ..core.runner import main
from ..core.values import num as _num, unnum


def num(x):
    """Num of a non-negative integer; anything else (a codec returning a negative number, a float ...) becomes a
    one-element sequence holding 999, which no Num ever equals, so the judge reports it instead of the harness dying"""
    try:
        return _num(x)
    except Exception:
        return [999]


def lib_notation(s, w, pad=0, room=None):
    """T10 (start bit, width) -> the library's [mask, offset].  pad > 0 gives the same field
    through a mask that spans `pad` further bytes after the field (e.g. [0xFF00, n] for the
    byte at n): still a contiguous run, at a bit alignment of 8 or more.  `room` = buffer
    length; the window never leaves the buffer."""
    off = s // 8
    r = s % 8
    n = (r + w + 7) // 8
    if room is not None:
        pad = max(0, min(pad, room - off - n))
    mask = ((1 << w) - 1) << (8 * (n + pad) - r - w)
    return [mask, off]


def replay_case(conv, c):
    """spec -> code: one terminal state of MC_Bits. Returns list of (clause, detail)."""
    bad = []
    names = ["f%d" % i for i in range(len(c["layout"]))]
    vals = {nm: unnum(v) for nm, v in zip(names, c["vals"])}
    for pad in (0, 1, 2):
        check = {nm: lib_notation(s, w, pad, len(c["base"])) for nm, (s, w) in zip(names, c["layout"])}
        bad += _replay_with(conv, c, names, check, vals, pad)
        if bad:
            break
    return bad


def _replay_with(conv, c, names, check, vals, pad):
    bad = []
    for perm in itertools.permutations(names):
        b = bytearray(c["base"])
        try:
            conv.encode_dict({k: vals[k] for k in perm}, {k: check[k] for k in names}, b)
        except Exception as ex:          # the library raising where the spec has a result
            bad.append(("EncodeMatchesSpec", {"order": list(perm), "raised": repr(ex), "masks": check}))
            break
        if list(b) != c["final"]:
            bad.append(("EncodeMatchesSpec", {"order": list(perm), "got": list(b), "masks": check}))
            break
    out = {}
    try:
        conv.decode_bits(bytearray(c["final"]), check, out)
    except Exception as ex:
        bad.append(("DecodeMatchesSpec", {"raised": repr(ex)}))
        return bad
    if out != vals:
        bad.append(("DecodeMatchesSpec", {"got": {k: int(v) for k, v in out.items()}, "masks": check}))
    return bad


class _Guard(object):
    """the codec functions, with an exception turned into a value no judge accepts (the property gives them no
    licence to raise for in-range input), so that a raising codec is reported instead of killing the harness"""

    def __init__(self, conv):
        self._c = conv

    def scsi_int_to_ba(self, v, k):
        try:
            return self._c.scsi_int_to_ba(v, k)
        except Exception:
            return bytearray(b"\xEE\xEE\xEE\xEE\xEE\xEE\xEE\xEE\xEE\xEE\xEE\xEE\xEE")

    def scsi_ba_to_int(self, ba):
        try:
            return self._c.scsi_ba_to_int(ba)
        except Exception:
            return -1

    def encode_dict(self, d, check, buf):
        try:
            return self._c.encode_dict(d, check, buf)
        except Exception:
            buf[:] = bytes(len(buf) + 1)          # wrong length: the judge rejects it

    def decode_bits(self, buf, check, out):
        try:
            return self._c.decode_bits(buf, check, out)
        except Exception:
            for k in check:
                out.setdefault(k, -1)


def gen_events(conv, rng, n_rand, wide):
    """code -> spec: record calls of the real functions."""
    conv = _Guard(conv)
    ev = []

    def rec_encode(nbytes, layout, vals, bg, order):
        before = bytearray(bg)
        for s, w in layout:           # field bits start at zero (the codec XORs into place)
            for p in range(s, s + w):
                before[p // 8] &= ~(0x80 >> (p % 8)) & 0xFF
        names = ["f%d" % i for i in range(len(layout))]
        check = {nm: lib_notation(s, w, rng.choice([0, 0, 1, 2, 3]), nbytes) for nm, (s, w) in zip(names, layout)}
        if rng.random() < 0.3:
            check = {nm: tuple(v) for nm, v in check.items()}      # CheckDict allows (mask, offset) tuples as well
        after = bytearray(before)
        conv.encode_dict({names[i]: vals[i] for i in order}, check, after)
        ev.append({"fn": "encode", "layout": [[s, w] for s, w in layout], "vals": [num(v) for v in vals],
                   "before": list(before), "after": list(after), "masks": [list(check[nm]) if check[nm][0] < 2 ** 31 else [hex(check[nm][0]), check[nm][1]] for nm in names]})
        out = {}
        conv.decode_bits(after, check, out)
        ev.append({"fn": "decode", "layout": [[s, w] for s, w in layout], "buf": list(after),
                   "out": [num(out[nm]) for nm in names]})

    def bvals(w):
        m = (1 << w) - 1
        return [0, m, 1, 1 << (w - 1), m - 1 if w > 1 else 0, int("A5" * 12, 16) & m, int("5A" * 12, 16) & m]

    # wide fields: widths 17..72 at all 8 alignments, boundary values, three backgrounds
    for w in wide:
        for r in range(8):
            nbytes = (r + w + 7) // 8 + 2
            s = 8 + r
            for v in bvals(w):
                bg = bytes([rng.choice([0, 255, 0xA5])] * nbytes)
                rec_encode(nbytes, [(s, w)], [v], bg, [0])
    # random layouts of 1..6 disjoint fields in buffers <= 32 bytes, random order
    for _ in range(n_rand):
        nbytes = rng.randint(1, 32)
        k = rng.randint(1, 6)
        cuts = sorted(rng.sample(range(0, 8 * nbytes + 1), min(2 * k, 8 * nbytes + 1) // 2 * 2))
        layout = []
        for i in range(0, len(cuts), 2):
            s, e = cuts[i], cuts[i + 1]
            w = min(e - s, 72)
            if w >= 1:
                layout.append((s, w))
        if not layout:
            continue
        vals = [rng.choice(bvals(w) + [rng.getrandbits(w)] * 3) for s, w in layout]
        order = list(range(len(layout)))
        rng.shuffle(order)
        bg = bytes(rng.getrandbits(8) for _ in range(nbytes))
        rec_encode(nbytes, layout, vals, bg, order)
    # integer <-> byte array
    for k in list(range(0, 10)) + [16, 19]:
        for v in ([0, 1, 255, 256] + [rng.getrandbits(8 * k) for _ in range(4)] if k else [0]):
            v &= (1 << (8 * k)) - 1 if k else 0
            out = conv.scsi_int_to_ba(v, k)
            ev.append({"fn": "int_to_ba", "v": num(v), "k": k, "out": list(out)})
            ev.append({"fn": "ba_to_int", "ba": list(out), "out": num(conv.scsi_ba_to_int(out))})
            # the caller owns what it got back: it extends and overwrites it, and asks again
            if isinstance(out, bytearray):
                out += b"\xEE\xEE"
                out[0] ^= 0xFF
                ev.append({"fn": "int_to_ba", "v": num(v), "k": k, "out": list(conv.scsi_int_to_ba(v, k))})
    for _ in range(40):
        ba = bytes(rng.getrandbits(8) for _ in range(rng.randint(0, 12)))
        ev.append({"fn": "ba_to_int", "ba": list(ba), "out": num(conv.scsi_ba_to_int(bytearray(ba)))})
    # blobs
    for kind, unit in (("b", 1), ("w", 2), ("dw", 4)):
        for ln in range(0, 5):
            for off in (0, 1, 3):
                nbytes = off + unit * ln + rng.randint(0, 3)
                before = bytearray(rng.getrandbits(8) for _ in range(nbytes))
                value = bytearray(rng.getrandbits(8) for _ in range(unit * ln))
                after = bytearray(before)
                conv.encode_dict({"x": value}, {"x": (kind, off, ln)}, after)
                ev.append({"fn": "encode_blob", "kind": kind, "off": off, "len": ln,
                           "before": list(before), "value": list(value), "after": list(after)})
                out = {}
                conv.decode_bits(after, {"x": (kind, off, ln)}, out)
                ev.append({"fn": "decode_blob", "kind": kind, "off": off, "len": ln,
                           "buf": list(after), "out": list(out["x"])})
    # several blobs of different kinds written by one call, in the order given (the CDB / data layouts of the library
    # mix them freely); the last one may end exactly at the end of the buffer
    U = {"b": 1, "w": 2, "dw": 4}
    for _ in range(max(40, n_rand // 20)):
        kinds = [rng.choice("b w dw".split()) for _ in range(rng.randint(2, 4))]
        off, blobs = rng.randint(0, 2), []
        for k in kinds:
            ln = rng.randint(1, 3)
            blobs.append({"kind": k, "off": off, "len": ln, "value": [rng.getrandbits(8) for _ in range(U[k] * ln)]})
            off += U[k] * ln + rng.randint(0, 2)
        nbytes = off - rng.choice([0, 0, 1, 2]) if off - 2 >= blobs[-1]["off"] + U[kinds[-1]] * blobs[-1]["len"] else off
        nbytes = max(nbytes, blobs[-1]["off"] + U[kinds[-1]] * blobs[-1]["len"])
        before = bytearray(rng.getrandbits(8) for _ in range(nbytes))
        after = bytearray(before)
        names = ["x%d" % i for i in range(len(blobs))]
        order = list(range(len(blobs)))
        rng.shuffle(order)
        conv.encode_dict({names[i]: bytearray(blobs[i]["value"]) for i in order},
                         {names[i]: (blobs[i]["kind"], blobs[i]["off"], blobs[i]["len"]) for i in range(len(blobs))}, after)
        ev.append({"fn": "encode_blobs", "blobs": [blobs[i] for i in order], "before": list(before), "after": list(after)})
    # a blob that is the whole buffer (and others): the decoded value and the buffer are two things
    for kind, unit in (("b", 1), ("w", 2), ("dw", 4)):
        for ln, off, tail in ((2, 0, 0), (1, 0, 0), (2, 0, 3), (2, 1, 0), (3, 2, 1)):
            buf = bytearray(rng.getrandbits(8) for _ in range(off + unit * ln + tail))
            buf0 = list(buf)
            out = {}
            conv.decode_bits(buf, {"x": (kind, off, ln)}, out)
            o = out["x"]
            o0 = list(o)
            ev.append({"fn": "decode_blob", "kind": kind, "off": off, "len": ln, "buf": buf0, "out": list(o0)})
            if isinstance(o, bytearray) and len(o):
                o[0] ^= 0xFF                          # the caller edits what it got
                o0[0] ^= 0xFF
            mid = list(buf)
            if len(buf):
                buf[off] ^= 0x0F                      # the buffer is used again
            ev.append({"fn": "blob_snapshot", "buf": buf0, "buf_now": mid, "out": o0, "out_now": list(o)})
    return ev


def run(chk, replay=None):
    conv = converter()
    ev = chk.ev
    ev.assumptions += [
        "the top byte of a mask is non-zero (as in every table of the library); masks may span further bytes after the field",
        "field bits are zero before encoding (the property quantifies over prior contents outside the field)",
        "TLC 1.8 and the CommunityModules Json/IOUtils modules are trusted",
    ]
    if replay is not None:
        if "case" in replay:
            for clause, detail in replay_case(conv, replay["case"]):
                chk.violation({"clause": clause, "case": replay["case"], "detail": detail})
        if "event" in replay:
            vs, st = tlc.judge_traces("Trace_Bits", "Trace_Bits.cfg", [replay["event"]], name="c10r")
            for i, clause, detail in vs:
                chk.violation({"clause": clause, "event": replay["event"], "detail": detail})
        return
    # 1. the specification's own laws + case export
    cfg = "MC_Bits_quick.cfg" if chk.quick else "MC_Bits_thorough.cfg"
    r = tlc.run("MC_Bits", cfg, workers=16, coverage=True, timeout=3000, name="c10mc")
    if not r.ok:
        raise tlc.TLCFailure("MC_Bits: specification law violated (%s): the oracle itself is inconsistent\n%s"
                             % (r.violated, r.counterexample[:3000]))
    for a in ("WriteSome", "Export"):
        if r.coverage.get(a, (0, 0))[0] == 0:
            raise tlc.TLCFailure("MC_Bits vacuous: action %s never taken" % a)
    ev.tlc("MC_Bits/" + cfg, r)
    cases = [v for t, v in r.prints if t == "CASE"]
    # 2. spec -> code
    for c in cases:
        ev.case(("mc", str(c["layout"]), str(c["vals"]), c["base"][0]),
                nontrivial=any(c["vals"]))
        for clause, detail in replay_case(conv, c):
            chk.violation({"clause": clause, "case": c, "detail": detail, "what": "MC_Bits case"})
    ev.replayed(len(cases))
    if cases:
        ev.sample({"spec_case": cases[len(cases) // 2]})
        ev.sample({"spec_case": cases[-1]})
    # 3. code -> spec
    rng = random.Random(chk.seed)
    wide = [17, 24, 31, 32, 33, 40, 48, 63, 64, 65, 72] if chk.quick else list(range(17, 73))
    events = gen_events(conv, rng, 1500 if chk.quick else 200000, wide)
    vs, st = tlc.judge_traces("Trace_Bits", "Trace_Bits.cfg", events, name="c10tr")
    ev.judged("Trace_Bits", st, len(events))
    for e in events:
        ev.case(("ev", e["fn"], str(e.get("layout")), str(e.get("vals") or e.get("v") or e.get("ba") or e.get("value"))))
    for i, clause, detail in vs:
        chk.violation({"clause": clause, "event": events[i], "detail": detail, "what": "Codec event"})
    ev.sample({"event": events[0]})
    ev.sample({"event": events[len(events) // 2]})
    ev.cov["rule"] = ("MC_Bits terminal states (every layout of 1-3 disjoint fields in a %s-byte buffer, exhaustive "
                      "values for narrow fields, 3 backgrounds, every write order) replayed into encode_dict/"
                      "decode_bits; plus recorded calls (wide fields 17-72 bits at all alignments, random layouts "
                      "<= 6 fields in <= 32 bytes, int<->bytes, blobs) judged by Trace_Bits. Non-trivial: some "
                      "value non-zero; distinct by (layout, values, background)." % ("3" if chk.quick else "4"))


if __name__ == "__main__":
    main("C10", run)
