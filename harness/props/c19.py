"""C19 - the transport bindings are optional; a missing one is refused, not half-used."""
import json
import os
import subprocess
import sys

from ..core import tlc
from ..core.runner import main, VERIF


def worker(sg, isc):
    env = dict(os.environ, PYTHONHASHSEED="0")
    p = subprocess.run([sys.executable, os.path.join(VERIF, "harness", "props", "c19_worker.py"),
                        "1" if sg else "0", "1" if isc else "0"], cwd=VERIF, env=env,
                       stdout=subprocess.PIPE, stderr=subprocess.PIPE, timeout=300)
    out = p.stdout.decode()
    for line in out.splitlines():
        if line.startswith("EVENTS "):
            return json.loads(line[7:])
    # the interpreter died: importing the package itself failed in this configuration
    return [{"ev": "import", "cfg": {"sgio": sg, "iscsi": isc}, "module": "pyscsi (interpreter: %s)"
             % (p.stderr.decode().strip().splitlines() or ["?"])[-1][:200], "ok": False}]


def run(chk, replay=None):
    ev = chk.ev
    ev.assumptions += [
        "an absent binding is simulated by a meta-path blocker raising ImportError; a present one by the stand-in modules",
        "open() is observed by shadowing the builtin in the device module's namespace (nothing is really opened but /dev/null)",
    ]
    if replay is not None:
        chk.only(replay, keys=("clause", "cfg", "via", "dev", "rw", "module", "what"))
    r = tlc.run("MC_Bindings", "MC_Bindings.cfg", workers=4, coverage=True, name="c19mc")
    if not r.ok:
        raise tlc.TLCFailure("Bindings.tla violated %s\n%s" % (r.violated, r.counterexample[:2000]))
    ev.tlc("MC_Bindings", r)
    events = []
    for sg in (False, True):
        for isc in (False, True):
            events += worker(sg, isc)
    for e in events:
        ev.case((e["ev"], e.get("via"), str(e["cfg"]), str(e.get("dev", e.get("module", e.get("what")))), e.get("rw"), e.get("default_ini")))
    vs, st = tlc.judge_traces("Trace_Bindings", "Trace_Bindings.cfg", events, name="c19tr")
    ev.judged("Trace_Bindings", st, len(events))
    for i, clause, detail in vs:
        e = events[i]
        chk.violation({"clause": clause, "cls": "", "field": "", "cfg": e["cfg"],
                       "dev": bytes(e["dev"]).decode() if "dev" in e else None, "rw": e.get("rw"), "via": e.get("via"),
                       "module": e.get("module"), "what": e.get("what"),
                       "detail": {"expected": detail, "event": {k: (bytes(v).decode("utf-8", "replace") if k in ("dev", "ini", "url", "ctx") else v)
                                                                for k, v in e.items()}}},
                      dedup=(clause, e.get("via"), str(e["cfg"]), str(e.get("dev", e.get("module", e.get("what")))), e.get("rw")))
    ini = [e for e in events if e["ev"] == "init"]
    ev.sample({"event": {k: (bytes(v).decode() if k in ("dev", "ini", "url", "ctx") else v) for k, v in ini[9].items()}})
    ev.sample({"event": events[0]})
    ev.cov["exhaustive"] = True
    ev.cov["rule"] = ("4 binding configurations x (every module under pyscsi imported, 4 codec/facade probes, 23 device "
                      "strings (+ a missing node where refusal is due) x read-only/read-write x default/explicit initiator "
                      "through init_device and through SCSIDevice / ISCSIDevice directly, os.stat/os.open/open counted), one interpreter "
                      "per configuration; every event judged by Trace_Bindings against Bindings.tla (prefix rules, "
                      "refusal before any open/connect, exactly the requested path/mode/URL/initiator). distinct by "
                      "(kind, configuration, string/module, rw, initiator).")


if __name__ == "__main__":
    main("C19", run)
