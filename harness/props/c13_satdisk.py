"""C13 (ATA pass-through) - behaviours of SatDisk.tla replayed on the real facade against a SCSI / ATA translation layer
and disk written from SAT-3 / ACS alone (spec -> code)."""
import os
import random

from ..core import tlc
from ..core.lib import mod

LBA = {1: 0x0, 2: 0x0ABCDE, 3: 0x5123456, 4: 0xA1B2C3D4E5F6}
MODEL = b"VERIF ATA DISK".ljust(40, b" ")


def sector(lba, x):
    """512 bytes that say which sector they were written for and with what"""
    return bytes([x]) * 256 + lba.to_bytes(8, "big") * 32


class SatTarget(object):
    """translation layer (SAT-3 12.2: ATA PASS-THROUGH (12) A1h, (16) 85h) + ATA disk (ACS-3 command set)"""
    PROTO = {0x20: 4, 0x24: 4, 0xEC: 4, 0x30: 5, 0x34: 5, 0xE7: 3, 0xEA: 3, 0xEF: 3, 0xE0: 3, 0xE1: 3, 0xE5: 3, 0xA1: 3}

    def __init__(self):
        self.sect = {}
        self.wcache, self.standby = True, False
        self.seen = 0
        self.last = None
        self.odd = []

    def state(self):
        vals = []
        for a in (1, 2, 3, 4):
            for k in (0, 1):
                s = self.sect.get(LBA[a] + k)
                vals.append(0 if s is None else (s[0] if s == sector(LBA[a] + k, s[0]) else 99))
        extra = [l for l in self.sect if l not in [LBA[a] + k for a in LBA for k in (0, 1)]]
        if extra:
            vals.append(("unexpected sectors", extra))
        return {"sect": vals, "wcache": self.wcache, "standby": self.standby}

    def identify(self):
        w = [0] * 256
        m = MODEL
        for i in range(20):                       # model number, words 27-46, two characters per word, first in the high byte
            w[27 + i] = (m[2 * i] << 8) | m[2 * i + 1]
        w[60], w[61] = 0xFFFF, 0x0FFF                 # 28-bit capacity
        w[83] = 0x4400                                # 48-bit feature set supported
        w[85] = 0x0020 if self.wcache else 0
        cap = LBA[4] + 2
        for i in range(4):
            w[100 + i] = (cap >> (16 * i)) & 0xFFFF
        return b"".join(bytes([x & 0xFF, x >> 8]) for x in w)    # words are little-endian on the wire

    def __call__(self, cdb, dataout, datain):
        self.seen += 1
        cdb = bytes(cdb)
        if cdb[0] == 0x12:
            d = bytearray(96)
            d[0], d[2], d[4] = 0, 6, 91
            d[8:16] = b"ATA     "
            datain[:len(d)] = d[:len(datain)]
            return 0, None
        if cdb[0] == 0x85 and len(cdb) == 16:
            v, extend, proto, flags = 16, cdb[1] & 1, (cdb[1] >> 1) & 0x0F, cdb[2]
            feat, count = cdb[4] | (cdb[3] << 8), cdb[6] | (cdb[5] << 8)
            lba = cdb[8] | (cdb[10] << 8) | (cdb[12] << 16) | (cdb[7] << 24) | (cdb[9] << 32) | (cdb[11] << 40)
            dev, cmd, ctl = cdb[13], cdb[14], cdb[15]
            if cdb[1] & 0xE0:
                self.odd.append("reserved bits of byte 1: %s" % list(cdb))
            if not extend:
                if cdb[3] or cdb[5] or cdb[7] or cdb[9] or cdb[11]:
                    self.odd.append("EXTEND = 0 with (15:8) / upper LBA bytes set: %s" % list(cdb))
                feat, count, lba = feat & 0xFF, count & 0xFF, lba & 0xFFFFFF
        elif cdb[0] == 0xA1 and len(cdb) == 12:
            v, extend, proto, flags = 12, 0, (cdb[1] >> 1) & 0x0F, cdb[2]
            feat, count, lba = cdb[3], cdb[4], cdb[5] | (cdb[6] << 8) | (cdb[7] << 16)
            dev, cmd, ctl = cdb[8], cdb[9], cdb[11]
            if cdb[1] & 0xE1 or cdb[10]:
                self.odd.append("reserved bits: %s" % list(cdb))
        else:
            self.odd.append(("cdb", list(cdb)))
            return 2, bytes([0x70, 0, 5, 0, 0, 0, 0, 10, 0, 0, 0, 0, 0x20, 0, 0, 0, 0, 0])
        off_line, ck_cond, t_type, t_dir, byte_block, t_length = flags >> 6, (flags >> 5) & 1, (flags >> 4) & 1, (flags >> 3) & 1, \
            (flags >> 2) & 1, flags & 3
        if self.PROTO.get(cmd) != proto:
            self.odd.append("protocol %d with command %02Xh" % (proto, cmd))
        if ctl or off_line:
            self.odd.append("control / off_line set: %s" % list(cdb))
        ext_cmd = cmd in (0x24, 0x34, 0xEA)
        if ext_cmd != bool(extend):
            self.odd.append("EXTEND = %d with command %02Xh" % (extend, cmd))
        if cmd in (0x20, 0x30, 0x24, 0x34, 0xEC):
            # sector transfers: the length is in COUNT (T_LENGTH = 2), in 512-byte blocks (BYTE_BLOCK = 1, T_TYPE = 0)
            if (t_length, byte_block, t_type) != (2, 1, 0) or t_dir != (0 if cmd in (0x30, 0x34) else 1):
                self.odd.append("transfer flags %02Xh with command %02Xh" % (flags, cmd))
            n = count
            buf = dataout if t_dir == 0 else datain
            if len(buf) != 512 * n:
                self.odd.append("count %d, buffer %d bytes" % (n, len(buf)))
        elif t_length or len(dataout) or len(datain):
            self.odd.append("non-data command %02Xh with transfer flags %02Xh / buffers" % (cmd, flags))
        if cmd in (0x20, 0x30):
            if not dev & 0x40:
                self.odd.append("28-bit command without LBA mode: device %02Xh" % dev)
            lba |= (dev & 0x0F) << 24
        elif cmd in (0x24, 0x34) and dev != 0x40:
            self.odd.append("48-bit command with device %02Xh" % dev)
        if cmd in (0x30, 0x34):
            self.last = ("write", v, extend, lba, count)
            for k in range(count):
                self.sect[lba + k] = bytes(dataout[512 * k:512 * k + 512])
            self.standby = False
        elif cmd in (0x20, 0x24):
            self.last = ("read", v, extend, lba, count)
            for k in range(count):
                datain[512 * k:512 * k + 512] = self.sect.get(lba + k, sector(lba + k, 0))
            self.standby = False
        elif cmd == 0xEC:
            self.last = ("identify", v)
            datain[:512] = self.identify()
        elif cmd == 0xEF:
            self.last = ("setcache", v, feat)
            if feat == 0x02:
                self.wcache = True
            elif feat == 0x82:
                self.wcache = False
            else:
                self.odd.append("SET FEATURES %02Xh" % feat)
        elif cmd in (0xE7, 0xEA):
            self.last = ("flush", v, extend)
        elif cmd == 0xE0:
            self.last = ("standby", v)
            self.standby = True
        elif cmd == 0xE1:
            self.last = ("idle", v)
            self.standby = False
        elif cmd == 0xE5:
            self.last = ("checkpower", v, ck_cond)
            if ck_cond:
                # descriptor format sense, RECOVERED ERROR, 00h/1Dh, ATA Status Return descriptor (09h, length 0Ch):
                # byte 2 EXTEND, 3 ERROR, 4-5 COUNT (15:8, 7:0), 6-11 LBA, 12 DEVICE, 13 STATUS
                desc = bytes([0x09, 0x0C, 0, 0, 0, 0x00 if self.standby else 0xFF, 0, 0, 0, 0, 0, 0, 0x40, 0x50])
                return 2, bytes([0x72, 0x01, 0x00, 0x1D, 0, 0, 0, len(desc)]) + desc
        elif cmd == 0xA1:
            # IDENTIFY PACKET DEVICE on an ATA (non-packet) disk: aborted.  CHECK CONDITION, ABORTED COMMAND, with the
            # ATA Status Return descriptor: ERROR = 04h (ABRT), STATUS = 51h (DRDY | ERR)
            self.last = ("aborted", v, ck_cond)
            desc = bytes([0x09, 0x0C, 0, 0x04, 0, 0, 0, 0, 0, 0, 0, 0, 0x40, 0x51])
            return 2, bytes([0x72, 0x0B, 0x00, 0x00, 0, 0, 0, len(desc)]) + desc
        else:
            self.odd.append("ATA command %02Xh" % cmd)
        return 0, None


def satdisk(chk, mini=False):
    """mini: one exhaustive configuration, a spread of its behaviours, no simulation (used by harness.selftest)"""
    from ..core import bindings
    ev = chk.ev
    beh = []
    cfgs = ["MC_SatDisk_iscsi.cfg", "MC_SatDisk_sgio.cfg", "MC_SatDiskS_iscsi.cfg", "MC_SatDiskS_sgio.cfg"]
    if mini:
        cfgs = cfgs[:2]
    for cfg in cfgs:
        r = tlc.run("SatDisk", cfg, workers=8, timeout=1800, coverage=cfg.startswith("MC_SatDisk_"), name="c13sat")
        if not r.ok:
            raise tlc.TLCFailure("SatDisk.tla violated %s\n%s" % (r.violated, r.counterexample[:1500]))
        if cfg.startswith("MC_SatDisk_"):
            for a in ("Write", "Read", "Identify", "SetCache", "Flush", "Power", "CheckPower", "Aborted"):
                if r.coverage.get(a, (0, 0))[0] == 0:
                    raise tlc.TLCFailure("SatDisk.tla vacuous: %s never taken" % a)
        ev.tlc("SatDisk/" + cfg + " (exhaustive)", r)
        b = [v for t, v in r.prints if t == "SATDISK"]
        if chk.quick and len(b) > 500:
            b = random.Random(chk.seed).sample(b, 500)         # every behaviour in the thorough tier
        beh += b
        r.prints = []
    if not mini:
        # the core state space without the history (TLC VIEW): every reachable target state and every kind of transition,
        # for histories of any length - the state invariants and action properties hold unboundedly at design level
        ru = tlc.run("SatDisk", "MC_SatDisk_unbounded.cfg", workers=8, timeout=2400, name="c13ub")
        if not ru.ok:
            raise tlc.TLCFailure("SatDisk.tla (unbounded, VIEW) violated %s\n%s" % (ru.violated, ru.counterexample[:1500]))
        ev.tlc("SatDisk/MC_SatDisk_unbounded.cfg (core states under VIEW, histories of any length)", ru)
    for cfg in (() if mini else ("Sim_SatDisk_iscsi.cfg", "Sim_SatDisk_sgio.cfg")):
        rs = tlc.run("SatDisk", cfg, workers=1, timeout=1800, name="c13satsim", simulate="num=%d" % (40 if chk.quick else 3000),
                     extra=["-depth", "40", "-seed", str(chk.seed + 29)])
        if rs.violated:
            raise tlc.TLCFailure("SatDisk.tla (simulation) violated %s" % rs.violated)
        beh += [v for t, v in rs.prints if t == "SATDISK"]
    if mini:
        beh = beh[::max(1, len(beh) // 160)]
    fs, fi = bindings.install(True, True)
    d = bindings.shm_dir("c13a")
    path = os.path.join(d, "sg3")
    open(path, "wb").close()
    SCSI = mod("pyscsi.pyscsi.scsi").SCSI
    steps, acts = 0, {}
    try:
        for b in beh:
            tgt = SatTarget()
            fs.reset(tgt)
            fi.reset(tgt)
            if b["tr"] == "iscsi":
                dev = mod("pyscsi.pyiscsi.iscsi_device").ISCSIDevice("iscsi://h/iqn.sat/0", "iqn.i")
            else:
                dev = mod("pyscsi.pyscsi.scsi_device").SCSIDevice(path, readwrite=True)
            f = SCSI(dev, 512)
            tgt.seen = 0
            for n_, s_ in enumerate(b["steps"]):
                a, g = s_["act"], s_["args"]
                seen0 = tgt.seen
                tgt.last = None
                out, d1, d2, view = "ok", 0, 0, []
                want_last = None
                v = g[0]

                def ata(proto, t_length, byte_block, t_dir, feat, count, lba, command, **kw):
                    m = f.atapassthrough12 if v == 12 else f.atapassthrough16
                    return m(proto, t_length, byte_block, t_dir, 0, 0, feat, count, lba, command, **kw)
                try:
                    if a in ("write", "read"):
                        ext, addr, n = g[1], g[2], g[3]
                        lba = LBA[addr]
                        want_last = (a, v, ext, lba, n)
                        kw = {}
                        if ext:
                            kw.update(extend=1, device=0x40)
                            cdb_lba, cmd = lba, (0x34 if a == "write" else 0x24)
                        else:
                            kw.update(device=0x40 | (lba >> 24))
                            if v == 16:
                                kw.update(extend=0)
                            cdb_lba, cmd = lba & 0xFFFFFF, (0x30 if a == "write" else 0x20)
                        if a == "write":
                            x = g[4]
                            data = bytearray(sector(lba, x) + (sector(lba + 1, 3 - x) if n == 2 else b""))
                            ata(5, 2, 1, 0, 0, n, cdb_lba, cmd, data=data, **kw)
                        else:
                            c = ata(4, 2, 1, 1, 0, n, cdb_lba, cmd, **kw)
                            for k in range(n):
                                s = bytes(c.datain[512 * k:512 * k + 512])
                                view.append(s[0] if s == sector(lba + k, s[0]) else 99)
                    elif a == "identify":
                        want_last = ("identify", v)
                        kw = {"extend": 0} if v == 16 else {}
                        c = ata(4, 2, 1, 1, 0, 1, 0, 0xEC, **kw)
                        idw = bytes(c.datain)
                        w85 = idw[170] | (idw[171] << 8)
                        d1 = (w85 >> 5) & 1
                        model = bytes(idw[54 + (i ^ 1)] for i in range(40))
                        cap48 = int.from_bytes(idw[200:208], "little")
                        if model != MODEL or cap48 != LBA[4] + 2 or len(idw) != 512:
                            d2 = 99
                    elif a == "setcache":
                        want_last = ("setcache", v, 0x02 if g[1] else 0x82)
                        kw = {"extend": 0} if v == 16 else {}
                        ata(3, 0, 0, 0, 0x02 if g[1] else 0x82, 0, 0, 0xEF, **kw)
                    elif a == "flush":
                        want_last = ("flush", v, g[1])
                        kw = {"extend": g[1]} if v == 16 else {}
                        ata(3, 0, 0, 0, 0, 0, 0, 0xEA if g[1] else 0xE7, **kw)
                    elif a in ("standby", "idle"):
                        want_last = (a, v)
                        kw = {"extend": 0} if v == 16 else {}
                        ata(3, 0, 0, 0, 0, 0, 0, 0xE0 if a == "standby" else 0xE1, **kw)
                    elif a == "aborted":
                        want_last = ("aborted", v, 0)
                        kw = {"extend": 0} if v == 16 else {}
                        c = ata(3, 0, 0, 0, 0, 0, 0, 0xA1, **kw)          # CK_COND left at its default
                        raw = c.raw_sense_data
                        if raw is None or len(raw) < 22 or raw[0] != 0x72 or raw[8] != 0x09:
                            d1 = 99
                        else:
                            d1 = raw[8 + 3]
                    elif a == "checkpower":
                        want_last = ("checkpower", v, 1)
                        kw = {"extend": 0} if v == 16 else {}
                        c = ata(3, 0, 0, 0, 0, 0, 0, 0xE5, ck_cond=1, **kw)
                        raw = c.raw_sense_data
                        # the caller reads the ATA Status Return descriptor itself, as the facade's docstring says
                        if raw is None or len(raw) < 22 or raw[0] != 0x72 or raw[8] != 0x09:
                            d1 = 99
                        else:
                            d1 = raw[8 + 5]
                except BaseException as ex:
                    out = type(ex).__name__
                    if out == "CheckCondition":
                        try:
                            d1 = int(ex.data["sense_key"])
                            d2 = int(ex.data["additional_sense_code"]) * 256 + int(ex.data["additional_sense_code_qualifier"])
                        except Exception:
                            d1 = 99
                sent = tgt.seen - seen0
                steps += 1
                acts[a] = acts.get(a, 0) + 1
                st = tgt.state()
                bad = None
                if sent != 1:
                    bad = "ExactlyOnce"
                elif tgt.last != want_last or tgt.odd:
                    bad = "AllArgumentsReachCdb"
                elif out != s_["out"] or (out != "ok" and (d1, d2) != (s_["d1"], s_["d2"])):
                    bad = "SessionOutcome"
                elif st != s_["st"]:
                    bad = "AllArgumentsReachCdb"
                elif out == "ok" and ((d1, d2) != (s_["d1"], s_["d2"]) or view != s_["view"]):
                    bad = "DecodesWhatDeviceReturned"
                if bad:
                    chk.violation({"clause": bad, "cls": "", "field": "", "method": "satdisk:" + a, "set": b["tr"],
                                   "detail": {"step": n_, "expected": s_, "observed": {"out": out, "sent": sent, "d1": d1, "d2": d2,
                                                                                      "view": view, "st": st, "target_decoded": str(tgt.last),
                                                                                      "wanted": str(want_last), "odd": [str(o) for o in tgt.odd[:3]]},
                                              "behaviour": [(x["act"], x["args"]) for x in b["steps"][:n_ + 1]]},
                                   "what": "SatDisk.tla behaviour replayed"}, dedup=("SatDisk", a, bad, b["tr"]))
                    break
            try:
                dev.close()
            except Exception:
                pass
            ev.case(("satdisk", b["tr"], str([(x["act"], x["args"]) for x in b["steps"]])[:600]))
    finally:
        for f_ in os.listdir(d):
            os.unlink(os.path.join(d, f_))
        os.rmdir(d)
    ev.cov["satdisk_behaviours_replayed"] = len(beh)
    ev.cov["satdisk_steps"] = steps
    ev.cov["satdisk_steps_by_action"] = acts
