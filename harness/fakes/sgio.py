"""Stand-in for the cython-sgio binding (harness, not oracle).

Contract rendered (python-scsi only uses these): execute(file, cdb, dataout, datain)
returns on GOOD, raises CheckConditionError(sense) (attribute .sense) on CHECK CONDITION
and UnspecifiedError on any other non-GOOD completion.  `TARGET` plays the device:
TARGET(cdb, dataout, datain) -> (status, sense-bytes-or-None) and may fill datain.
Every call is recorded in CALLS together with the inode of the file object it was given.
A data-out command through a handle opened read-only raises PermissionError, as the sg driver does.
"""
import os


class CheckConditionError(Exception):
    def __init__(self, sense):
        Exception.__init__(self, "check condition")
        self.sense = sense


class UnspecifiedError(Exception):
    pass


CALLS = []
TARGET = None
# cython-sgio raises CheckConditionError only when sense bytes were written; another build of the binding may report
# CHECK CONDITION with an empty sense buffer: the harness switches this on for those cases (transport "sgio_e")
CC_WITHOUT_SENSE = False


def reset(target=None):
    global TARGET
    del CALLS[:]
    TARGET = target


def execute(file, cdb, dataout, datain, *args, **kwargs):
    rec = {"cdb": bytes(cdb), "doutlen": len(dataout), "dinlen": len(datain), "dout": bytes(dataout),
           "closed": getattr(file, "closed", None), "mode": getattr(file, "mode", None),
           "din_id": id(datain), "dout_id": id(dataout)}
    try:
        rec["ino"] = os.fstat(file.fileno()).st_ino
    except Exception as ex:           # closed or bogus handle
        rec["ino"] = None
        rec["ino_error"] = type(ex).__name__
    CALLS.append(rec)
    if rec["closed"]:
        raise ValueError("I/O operation on closed file")
    if len(dataout) and rec["mode"] is not None and not ("+" in rec["mode"] or "w" in rec["mode"] or "a" in rec["mode"]):
        # the sg driver lets a read-only opener issue only commands that do not write (sg_allow_access /
        # blk_verify_command): a data-out command through an "rb" handle fails with EPERM before it reaches the target
        raise PermissionError(1, "Operation not permitted (read-only handle, data-out command)")
    status, sense = (0, None) if TARGET is None else TARGET(bytes(cdb), dataout, datain)
    rec["status"] = status
    if status == 0:
        return 0
    if status == 2 and (sense or CC_WITHOUT_SENSE):       # cython-sgio: CheckConditionError only when sense bytes were written
        raise CheckConditionError(sense or b"")
    raise UnspecifiedError()
