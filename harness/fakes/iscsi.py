"""Stand-in for the cython-iscsi binding (harness, not oracle).

Renders what pyscsi.pyiscsi.iscsi_device uses: Context, URL, Task, five constants.
Task.status is the SCSI status byte; Task.raw_sense exists only when the target sent
sense data (AttributeError otherwise, as the library anticipates).  TARGET as in the
sgio stand-in.  LOG records every binding-level call in order.
"""
ISCSI_SESSION_NORMAL = 2
ISCSI_HEADER_DIGEST_NONE_CRC32C = 1
SCSI_XFER_NONE = 0
SCSI_XFER_READ = 1
SCSI_XFER_WRITE = 2

LOG = []
DISCONNECT_RC = 0
TARGET = None


def reset(target=None):
    global TARGET
    del LOG[:]
    TARGET = target


class URL(object):
    def __init__(self, ctx, url):
        LOG.append(("URL", url))
        self.url = url
        rest = url[len("iscsi://"):]
        parts = rest.split("/")
        self.portal = parts[0]
        self.target = parts[1] if len(parts) > 1 else ""
        try:
            self.lun = int(parts[2]) if len(parts) > 2 else 0
        except ValueError:
            self.lun = 0


class Task(object):
    def __init__(self, cdb, direction, xferlen):
        self.cdb = bytes(cdb)
        self.dir = direction
        self.xferlen = xferlen
        self.status = None


class Context(object):
    def __init__(self, initiator_name):
        LOG.append(("Context", initiator_name))
        self.initiator_name = initiator_name
        self.connected = False

    def set_targetname(self, t):
        LOG.append(("set_targetname", t))
        self.targetname = t

    def set_session_type(self, t):
        LOG.append(("set_session_type", t))

    def set_header_digest(self, d):
        LOG.append(("set_header_digest", d))

    def connect(self, portal, lun):
        LOG.append(("connect", portal, lun))
        self.connected = True

    def disconnect(self):
        LOG.append(("disconnect",))
        self.connected = False
        # libiscsi reports 0, or -1 when the disconnect itself failed (the harness sets DISCONNECT_RC for that)
        return DISCONNECT_RC

    def command(self, lun, task, dataout, datain):
        rec = {"cdb": task.cdb, "dir": task.dir, "xferlen": task.xferlen, "doutlen": len(dataout),
               "dinlen": len(datain), "dout": bytes(dataout), "lun": lun, "connected": self.connected,
               "target": getattr(self, "targetname", None), "initiator": self.initiator_name,
               "din_id": id(datain), "dout_id": id(dataout)}
        LOG.append(("command", rec))
        status, sense = (0, None) if TARGET is None else TARGET(task.cdb, dataout, datain)
        rec["status"] = status
        task.status = status
        if sense is not None:
            task.raw_sense = sense
