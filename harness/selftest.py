"""Binding self-test (run by setup_cmd): for every trace specification a tiny recorded trace
must be accepted, and the same trace with ONE corrupted field (or one dropped event) must be
rejected at exactly that event.  A trace spec that accepts the corrupted trace constrains
nothing; the checks could not be believed."""
import concurrent.futures as cf
import copy
import sys

from .core import tlc

SENSE_F = [0x70, 0, 5, 0, 0, 0, 0, 10, 0, 0, 0, 0, 0x24, 0, 0, 0, 0, 0]

CASES = {
    "Trace_Bits": dict(
        good=[{"fn": "encode", "layout": [[4, 8]], "vals": [[0xAB]], "before": [0, 0], "after": [0x0A, 0xB0]},
              {"fn": "int_to_ba", "v": [1, 2], "k": 4, "out": [0, 0, 1, 2]}],
        corrupt=lambda t: t[0]["after"].__setitem__(1, 0xB1), at=0),
    "Trace_Command": dict(
        good=[{"ev": "Construct", "cls": "Read10", "set": "sbc", "a": {"blocksize": [2, 0], "lba": [1, 0], "tl": [2], "fua": [1]},
               "exc": "", "cdb": [0x28, 0x08, 0, 0, 1, 0, 0, 0, 2, 0], "dinlen": 1024, "doutlen": 0, "bufs_ok": True, "dout_same": True},
              {"ev": "DecodeBytes", "cls": "Inquiry", "in": [0x12, 1, 0x83, 0, 96, 0],
               "out": {"opcode": [0x12], "evpd": [1], "page_code": [0x83], "alloc_len": [96]}}],
        corrupt=lambda t: t[0]["cdb"].__setitem__(4, 2), at=0),
    "Trace_Opcodes": dict(
        good=[{"ev": "Lookup", "set": "sbc", "name": "READ_10", "value": 40}, {"ev": "Lookup", "set": "mmc", "name": "READ_10", "value": 40},
              {"ev": "CdbLen", "op": 0x7F, "len": 0, "exc": "OpcodeException"}],
        corrupt=lambda t: t[1].__setitem__("value", 41), at=1),
    "Trace_Transport": dict(
        good=[{"tr": "iscsi", "st": 8, "s": "none", "raw": False,
               "o": {"how": "raised", "exc": "BusyStatus", "key": 0, "asc": 0, "ascq": 0, "raw": "none"}},
              {"tr": "sgio", "st": 2, "s": "f1", "raw": False,
               "o": {"how": "raised", "exc": "CheckCondition", "key": 5, "asc": 36, "ascq": 0, "raw": "none"}}],
        corrupt=lambda t: t[1]["o"].__setitem__("how", "returned"), at=1),
    "Trace_Handle": dict(
        good=[{"a": "reset", "detect": True, "mode": "rw"},
              {"a": "exec", "obs": {"out": "ok", "sent": "current", "live": 1, "hopen": True, "hmode": "rw"}},
              {"a": "replug", "obs": {"out": "ok", "sent": "none", "live": 0, "hopen": True, "hmode": "rw"}},
              {"a": "exec", "obs": {"out": "ok", "sent": "current", "live": 1, "hopen": True, "hmode": "rw"}}],
        corrupt=lambda t: t[3]["obs"].__setitem__("sent", "stale"), at=3),
    "Trace_EnumSM": dict(
        good=[{"op": "reset"}, {"op": "new", "e": "E1", "items": [["a", 1]], "others": {}},
              {"op": "add", "e": "E1", "name": "b", "v": 2, "res": "ok", "items": [["a", 1], ["b", 2]], "others": {}},
              {"op": "rev", "e": "E1", "name": "", "v": 2, "res": "b", "items": [["a", 1], ["b", 2]], "others": {}}],
        corrupt=lambda t: t[3].__setitem__("res", "a"), at=3, drop=2, drop_at=2),
    "Trace_Data": dict(
        good=[{"ev": "Unmarshal", "fmt": "ReadCapacity10", "bytes": [0, 0, 0, 5, 0, 0, 2, 0], "exc": "",
               "out": {"returned_lba": [5], "block_length": [2, 0]}},
              {"ev": "Marshal", "fmt": "PrOutBasic", "exc": "", "in": {"reservation_key": [7], "aptpl": [1]},
               "bytes": [0, 0, 0, 0, 0, 0, 0, 7] + [0] * 12 + [1, 0, 0, 0]}],
        corrupt=lambda t: t[0]["out"].__setitem__("block_length", [2, 1]), at=0),
    "Trace_Sense": dict(
        good=[{"bytes": SENSE_F, "built": True, "strok": True, "printok": True, "rc": 0x70, "valid": 0, "key": 5, "asc": 0x24,
               "ascq": 0, "has_text": True, "has_key": True}],
        corrupt=lambda t: t[0].__setitem__("asc", 0x25), at=0),
    "Trace_Attach": dict(
        good=[{"ev": "reset"}, {"ev": "attach", "fault": 0, "dev": "d1", "type": 5, "qual": 0, "tr": "sgio", "fresh": True,
                                "cdbs": [[18, 0, 0, 0, 96, 0]], "set": "mmc", "primary": True, "devtype": 5, "exc": "", "others": {}}],
        corrupt=lambda t: t[1].__setitem__("set", "sbc"), at=1),
    "Trace_Target": dict(
        good=[{"ev": "reset", "bs": 1, "cap": [255]},
              {"ev": "io", "method": "write10", "cls": "Write10", "tr": "sgio", "a": {"lba": [3], "tl": [1]}, "data": [9],
               "cdb": [0x2A, 0, 0, 0, 0, 3, 0, 0, 1, 0], "dout": [9], "din_target": [], "din_seen": [], "exc": "", "res": {"#none": []}, "ident": []},
              {"ev": "io", "method": "read10", "cls": "Read10", "tr": "sgio", "a": {"lba": [3], "tl": [1]}, "data": [],
               "cdb": [0x28, 0, 0, 0, 0, 3, 0, 0, 1, 0], "dout": [], "din_target": [9], "din_seen": [9], "exc": "", "res": {"#none": []}, "ident": []}],
        corrupt=lambda t: t[2].__setitem__("din_seen", [8]), at=2),
    "Trace_Facade": dict(
        good=[{"method": "read10", "set": "sbc", "exc": "", "execs": 1, "returned": True, "fail": "", "same_bufs": True, "same_cdb": True}],
        corrupt=lambda t: t[0].__setitem__("execs", 2), at=0),
    "Trace_Refuse": dict(
        good=[{"k": "prin_sa", "v": 7, "exc": "ValueError", "execs": 0, "obj": False, "std": 4},
              {"k": "opcode_len", "v": 0x28, "exc": "", "execs": 0, "obj": True, "std": 4}],
        corrupt=lambda t: t[0].__setitem__("execs", 1), at=0),
    "Trace_Bindings": dict(
        good=[{"ev": "init", "via": "init_device", "touched": 0, "cfg": {"sgio": False, "iscsi": True}, "dev": [47, 100, 101, 118, 47, 120], "rw": False, "ini": [105],
               "default_ini": False, "class": "", "exc": "NotImplementedError", "opens": [], "reopens": [], "connects": 0, "url": [], "ctx": []}],
        corrupt=lambda t: t[0].__setitem__("opens", [[[47, 100, 101, 118, 47, 120], "rb"]]), at=0),
    "Trace_Decoders": dict(
        good=[{"fmt": "ReportLuns", "len": 24, "steps": 60, "outcome": "returned", "tb1": 0, "tbn": 0}],
        corrupt=lambda t: t[0].__setitem__("steps", 10 ** 6), at=0),
}


def one(name):
    c = CASES[name]
    cfg = name + ".cfg"
    out = []
    vs, _ = tlc.judge_traces(name, cfg, copy.deepcopy(c["good"]), shard=10 ** 9, procs=1, name="selftest")
    vs = [v for v in vs if v[1] != "Unjudged"]
    if vs:
        out.append("%s: the good trace is rejected: %s" % (name, vs[:2]))
    bad = copy.deepcopy(c["good"])
    c["corrupt"](bad)
    vs, _ = tlc.judge_traces(name, cfg, bad, shard=10 ** 9, procs=1, name="selftest")
    idx = sorted(set(v[0] for v in vs if v[1] != "Unjudged"))
    if idx != [c["at"]]:
        out.append("%s: corrupted event %d not reported exactly (reported %s)" % (name, c["at"], idx))
    if "drop" in c:
        dropped = copy.deepcopy(c["good"])
        del dropped[c["drop"]]
        vs, _ = tlc.judge_traces(name, cfg, dropped, shard=10 ** 9, procs=1, name="selftest")
        idx = sorted(set(v[0] for v in vs if v[1] != "Unjudged"))
        if c["drop_at"] not in idx:
            out.append("%s: dropping event %d goes unnoticed (reported %s)" % (name, c["drop"], idx))
    return name, out


class _Ev(object):
    """what a replay needs of an evidence object"""
    def __init__(self):
        self.cov = {}

    def tlc(self, *a, **k):
        pass

    def case(self, *a, **k):
        pass


class _Chk(object):
    quick, seed = True, 0

    def __init__(self):
        self.ev = _Ev()
        self.violations = []

    def violation(self, rec, dedup=None):
        self.violations.append(rec)


def replays():
    """spec -> code bindings: each composed machine is replayed on the library as it is (no violation allowed) and on
    the library with ONE in-memory perturbation of the kind a slip would make (a violation must be reported).  A
    replay that stays silent under the perturbation constrains nothing."""
    from .core.lib import mod
    from .props.c13_changer import changer
    from .props.c13_reservations import reservations
    from .props.c13_modepages import modepages
    from .props.c13_satdisk import satdisk
    out = []

    def swap_move():
        K = mod("pyscsi.pyscsi.scsi_cdb_movemedium").MoveMedium
        b = K._cdb_bits
        old = (b["source_address"], b["destination_address"])
        b["source_address"], b["destination_address"] = old[1], old[0]
        return lambda: b.update(source_address=old[0], destination_address=old[1])

    def swap_keys():
        b = mod("pyscsi.pyscsi.scsi_cdb_persistentreserveout").PersistentReserveOut._basic_parameter_list_bits
        old = (b["reservation_key"], b["service_action_reservation_key"])
        b["reservation_key"], b["service_action_reservation_key"] = old[1], old[0]
        return lambda: b.update(reservation_key=old[0], service_action_reservation_key=old[1])

    def swp_mask():
        b = mod("pyscsi.pyscsi.scsi_enum_modesense").control_bits
        old = b["swp"]
        b["swp"] = [0x04, 2]
        return lambda: b.update(swp=old)

    def flat_lba():
        K = mod("pyscsi.pyscsi.scsi_cdb_atapassthrough16").ATAPassThrough16
        real = K.__dict__["scsi_to_ata_lba_convert"]
        K.scsi_to_ata_lba_convert = staticmethod(lambda lba: lba)
        return lambda: setattr(K, "scsi_to_ata_lba_convert", real)

    for name, fn, perturb in (("Changer", changer, swap_move), ("Reservations", reservations, swap_keys),
                              ("ModePages", modepages, swp_mask), ("SatDisk", satdisk, flat_lba)):
        c = _Chk()
        fn(c, mini=True)
        msg = []
        if c.violations:
            msg.append("%s: the unchanged library is reported: %s" % (name, str(c.violations[0])[:300]))
        undo = perturb()
        try:
            c2 = _Chk()
            fn(c2, mini=True)
        finally:
            undo()
        if not c2.violations:
            msg.append("%s: the perturbed library is NOT reported" % name)
        print("REPLAY  %-16s %s" % (name, "ok (library accepted, perturbation reported: %s)" % c2.violations[0]["clause"] if not msg else "FAILED"))
        for m in msg:
            print("   ", m)
        out += msg
    return len(out)


def main():
    bad = 0
    with cf.ThreadPoolExecutor(max_workers=8) as ex:
        for name, out in ex.map(one, sorted(CASES)):
            print("BINDING %-16s %s" % (name, "ok (good accepted, corruption reported at the right event)" if not out else "FAILED"))
            for o in out:
                print("   ", o)
                bad += 1
    bad += replays()
    sys.exit(1 if bad else 0)


if __name__ == "__main__":
    main()
