"""Evidence files (/root/.vp/EVIDENCE.schema.json)."""
import json
import os
import time

VERIF = os.path.dirname(os.path.dirname(os.path.dirname(os.path.abspath(__file__))))


class Evidence(object):
    def __init__(self, pid, tier, seed, level="model_checking"):
        self.pid = pid
        self.tier = tier
        self.seed = int(seed)
        self.level = level
        self.t0 = time.time()
        self.cov = {
            "states": 0, "transitions": 0, "traces_validated_against_impl": 0,
            "samples": [], "evaluations": 0, "distinct_nontrivial": 0, "rule": "",
            "spec_runs": [], "known_findings_hit": [],
        }
        self.assumptions = []
        self.violations = 0
        self._distinct = set()

    def tlc(self, label, r):
        """account for one TLC run (TLCResult)"""
        self.cov["states"] += int(r.distinct)
        self.cov["transitions"] += int(r.states)
        self.cov["spec_runs"].append({
            "label": label, "distinct_states": r.distinct, "states_generated": r.states,
            "depth": r.depth, "wall_s": round(r.wall, 2),
            "actions": {k: v[0] for k, v in sorted(r.coverage.items())} if r.coverage else {},
        })

    def judged(self, label, stats, n_events):
        self.cov["states"] += int(stats["states"])
        self.cov["transitions"] += int(stats["transitions"])
        self.cov["traces_validated_against_impl"] += int(n_events)
        self.cov["spec_runs"].append({"label": label, "events_judged": n_events,
                                      "shards": stats["shards"], "wall_s": round(stats["wall"], 2)})

    def case(self, key, nontrivial=True):
        """count one evaluated case; key identifies distinctness"""
        self.cov["evaluations"] += 1
        if nontrivial:
            self._distinct.add(key if isinstance(key, (str, int, tuple)) else json.dumps(key, sort_keys=True))

    def replayed(self, n=1):
        self.cov["traces_validated_against_impl"] += n

    def sample(self, s, cap=6):
        if len(self.cov["samples"]) < cap:
            self.cov["samples"].append(s)

    def write(self):
        self.cov["distinct_nontrivial"] = len(self._distinct)
        doc = {
            "property_id": self.pid, "tier": self.tier, "seed": self.seed,
            "level": self.level, "coverage": self.cov, "assumptions": self.assumptions,
            "wall_s": round(time.time() - self.t0, 2), "violations": int(self.violations),
        }
        d = os.path.join(VERIF, "evidence")
        os.makedirs(d, exist_ok=True)
        tmp = os.path.join(d, self.pid + ".json.tmp")
        with open(tmp, "w") as f:
            json.dump(doc, f, indent=1, sort_keys=True)
        os.replace(tmp, os.path.join(d, self.pid + ".json"))
        return doc
