"""Import the library under test from the working tree (VERIF_REPO, default /repo),
with the fake bindings optionally installed first."""
import importlib
import os
import sys

REPO = os.environ.get("VERIF_REPO", "/repo")


_DONE = [False]
_MODS = {}


def use_repo():
    if _DONE[0]:
        return
    _DONE[0] = True
    if REPO not in sys.path:
        sys.path.insert(0, REPO)
    # never pick up an installed copy
    for k in list(sys.modules):
        if k == "pyscsi" or k.startswith("pyscsi."):
            f = getattr(sys.modules[k], "__file__", "") or ""
            if not f.startswith(REPO):
                del sys.modules[k]


def converter():
    use_repo()
    return importlib.import_module("pyscsi.utils.converter")


def mod(name):
    m = _MODS.get(name)
    if m is None or sys.modules.get(name) is not m:
        use_repo()
        m = importlib.import_module(name)
        _MODS[name] = m
    return m
