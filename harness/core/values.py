"""JSON <-> TLA+ value conventions (DESIGN 3.1).

num  : big-endian list of bytes, minimal (0 -> []), never an int >= 2**31
buf  : list of bytes
text : list of bytes (utf-8)
flat : dict path -> num|buf  (nested dict/list of the library, flattened)
"""


def num(x):
    """Num of a non-negative integer.  Values the library hands back may be anything (a negative number after a
    signed/unsigned slip, None, a float): those become a sequence no Num ever equals, so that the judge reports
    them instead of the harness dying with a machinery failure."""
    try:
        x = int(x)
    except Exception:
        return [998, 998]
    if x < 0:
        return [999, 999]
    out = []
    while x:
        out.append(x & 0xFF)
        x >>= 8
    out.reverse()
    return out


def unnum(v):
    r = 0
    for b in v:
        r = (r << 8) | b
    return r


def buf(b):
    return list(bytes(b))


def text(s):
    return list(s.encode("utf-8"))


def small(x):
    """ints that are provably < 2**31 stay ints"""
    x = int(x)
    assert 0 <= x < 2 ** 31
    return x


def flatten(obj, prefix=""):
    """Flatten nested dict/list into {path: num|buf}.  ints -> num, bytes -> buf,
    str -> text bytes tagged by the path only (both sides homogeneous)."""
    out = {}

    def rec(o, p):
        if isinstance(o, dict):
            if not o and p:
                out[p + "/#"] = []          # empty dict marker keeps presence visible
            for k, v in o.items():
                rec(v, (p + "/" if p else "") + str(k))
        elif isinstance(o, (list, tuple)):
            out[(p + "/" if p else "") + "#len"] = num(len(o))
            for i, v in enumerate(o):
                rec(v, (p + "/" if p else "") + str(i))
        elif isinstance(o, bool):
            out[p] = num(int(o))
        elif isinstance(o, int):
            # a negative number is never what a field holds: keep it visible as text, the judge will disagree
            out[p] = num(o) if o >= 0 else text("negative:%d" % o)
        elif isinstance(o, (bytes, bytearray, memoryview)):
            out[p] = buf(o)
        elif isinstance(o, str):
            out[p] = text(o)
        elif o is None:
            out[p + "/#none"] = []
        else:
            out[p] = text(repr(o))
    rec(obj, prefix)
    return out
