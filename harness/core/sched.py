"""Line-level cooperative scheduler (C09): real threads, exactly one runs at a time, context
switches only at 'line' events inside the library under test, at the positions a schedule
from Sched.tla prescribes."""
import sys
import threading

from .lib import REPO

PREFIX = REPO.rstrip("/") + "/pyscsi"


class Runner(object):
    def __init__(self, programs):
        self.programs = programs
        self.n = len(programs)

    def measure(self, t):
        """number of yield points of program t when run alone"""
        cnt = [0]

        def tracer(frame, event, arg):
            if not frame.f_code.co_filename.startswith(PREFIX):
                return None
            if event == "line":
                cnt[0] += 1
            return tracer
        res = {}

        def body():
            sys.settrace(tracer)
            try:
                res["v"] = self.programs[t]()
            except Exception as ex:
                res["v"] = ("raised", type(ex).__name__)
            finally:
                sys.settrace(None)
        th = threading.Thread(target=body)
        th.start()
        th.join()
        return cnt[0], res["v"]

    def run(self, segs):
        """segs: [[t, k], ...] (1-based thread ids): thread t runs until it has executed k yield
        points (k = its total: to completion).  Returns the per-thread results."""
        n = self.n
        go = [threading.Semaphore(0) for _ in range(n)]
        back = threading.Semaphore(0)
        count = [0] * n
        stop = [0] * n
        done = [False] * n
        results = [None] * n

        def make(t):
            def tracer(frame, event, arg):
                if not frame.f_code.co_filename.startswith(PREFIX):
                    return None
                if event == "line":
                    if count[t] >= stop[t]:
                        back.release()          # hand control back before executing this line
                        go[t].acquire()
                    count[t] += 1
                return tracer

            def body():
                go[t].acquire()
                sys.settrace(tracer)
                try:
                    results[t] = self.programs[t]()
                except Exception as ex:
                    results[t] = ("raised", type(ex).__name__)
                finally:
                    sys.settrace(None)
                    done[t] = True
                    back.release()
            return body
        threads = [threading.Thread(target=make(t)) for t in range(n)]
        for th in threads:
            th.daemon = True
            th.start()
        for t1, k in segs:
            t = t1 - 1
            if done[t]:
                continue
            stop[t] = k
            go[t].release()
            back.acquire()
        # anything a schedule left unfinished (line counts can differ by a few between runs) runs out
        for t in range(n):
            while not done[t]:
                stop[t] = 10 ** 9
                go[t].release()
                back.acquire()
        for th in threads:
            th.join(5)
        return results


    def run_many(self, scheds, procs=12):
        """run() for every schedule, spread over forked worker processes (each child inherits the
        library in exactly the parent's state, so every schedule starts from the same state as in
        the sequential loop that never mutates it). Returns the list of results in order."""
        import json
        import os
        if len(scheds) < 4 * procs:
            return [self.run(sg) for sg in scheds]
        chunks = [scheds[i::procs] for i in range(procs)]
        pipes = []
        for ch in chunks:
            r, w = os.pipe()
            pid = os.fork()
            if pid == 0:
                try:
                    os.close(r)
                    out = [repr(self.run(sg)) for sg in ch]
                    with os.fdopen(w, "w") as f:
                        json.dump(out, f)
                finally:
                    os._exit(0)
            os.close(w)
            pipes.append((pid, r))
        parts = []
        for pid, r in pipes:
            with os.fdopen(r) as f:
                txt = f.read()
            os.waitpid(pid, 0)
            parts.append(json.loads(txt) if txt else None)
        out = [None] * len(scheds)
        for i, part in enumerate(parts):
            if part is None or len(part) != len(chunks[i]):
                raise RuntimeError("schedule worker %d died" % i)
            for j, v in enumerate(part):
                out[i + j * procs] = eval(v, {"__builtins__": {}}, {"bytearray": bytearray})
        return out
