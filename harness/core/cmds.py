"""The 42 command classes seen through their public API: how to obtain the opcode object
of a command set, how to call the constructor by keyword, how to record an event.

Only API-level knowledge lives here (module / class names, the attribute of the opcode
table the facade uses).  No layout knowledge: expectations come from T10Cdb.tla."""
import importlib

from .lib import mod, use_repo
from .values import num, unnum

# class name in the spec -> (module, class, opcode-table attribute or generic suffix)
REG = {
    "TestUnitReady": ("scsi_cdb_testunitready", "TestUnitReady", "TEST_UNIT_READY"),
    "InitializeElementStatus": ("scsi_cdb_initelementstatus", "InitializeElementStatus", "INITIALIZE_ELEMENT_STATUS"),
    "Inquiry": ("scsi_cdb_inquiry", "Inquiry", "INQUIRY"),
    "ModeSelect6": ("scsi_cdb_modesense6", "ModeSelect6", "MODE_SELECT_6"),
    "ModeSense6": ("scsi_cdb_modesense6", "ModeSense6", "MODE_SENSE_6"),
    "OpenCloseImportExportElement": ("scsi_cdb_openclose_exportimport_element", "OpenCloseImportExportElement",
                                     "OPEN_CLOSE_IMPORT_EXPORT_ELEMENT"),
    "PreventAllowMediumRemoval": ("scsi_cdb_preventallow_mediumremoval", "PreventAllowMediumRemoval",
                                  "PREVENT_ALLOW_MEDIUM_REMOVAL"),
    "ReadCapacity10": ("scsi_cdb_readcapacity10", "ReadCapacity10", "READ_CAPACITY_10"),
    "Read10": ("scsi_cdb_read10", "Read10", "READ_10"),
    "Write10": ("scsi_cdb_write10", "Write10", "WRITE_10"),
    "PositionToElement": ("scsi_cdb_positiontoelement", "PositionToElement", "POSITION_TO_ELEMENT"),
    "SynchronizeCache10": ("scsi_cdb_synchronize_cache10", "SynchronizeCache10", "SYNCHRONIZE_CACHE_10"),
    "InitializeElementStatusWithRange": ("scsi_cdb_initelementstatuswithrange", "InitializeElementStatusWithRange",
                                         "INITIALIZE_ELEMENT_STATUS_WITH_RANGE"),
    "WriteSame10": ("scsi_cdb_writesame10", "WriteSame10", "WRITE_SAME_10"),
    "ReadDiscInformation": ("scsi_cdb_readdiscinformation", "ReadDiscInformation", "READ_DISC_INFORMATION"),
    "ModeSelect10": ("scsi_cdb_modesense10", "ModeSelect10", "MODE_SELECT_10"),
    "ModeSense10": ("scsi_cdb_modesense10", "ModeSense10", "MODE_SENSE_10"),
    "PersistentReserveIn": ("scsi_cdb_persistentreservein", "PersistentReserveIn", "PERSISTENT_RESERVE_IN"),
    "PersistentReserveInReadKeys": ("scsi_cdb_persistentreservein", "PersistentReserveInReadKeys",
                                    "PERSISTENT_RESERVE_IN"),
    "PersistentReserveInReadReservation": ("scsi_cdb_persistentreservein", "PersistentReserveInReadReservation",
                                           "PERSISTENT_RESERVE_IN"),
    "PersistentReserveInReportCapabilities": ("scsi_cdb_persistentreservein",
                                              "PersistentReserveInReportCapabilities", "PERSISTENT_RESERVE_IN"),
    "PersistentReserveInReadFullStatus": ("scsi_cdb_persistentreservein", "PersistentReserveInReadFullStatus",
                                          "PERSISTENT_RESERVE_IN"),
    "PersistentReserveOut": ("scsi_cdb_persistentreserveout", "PersistentReserveOut", "PERSISTENT_RESERVE_OUT"),
    "ExtendedCopy4": ("scsi_cdb_extended_copy_spc4", "ExtendedCopy", "EXTENDED_COPY"),
    "ExtendedCopy5": ("scsi_cdb_extended_copy_spc5", "ExtendedCopy", "EXTENDED_COPY"),
    "ATAPassThrough16": ("scsi_cdb_atapassthrough16", "ATAPassThrough16", "ATA_PASS_THROUGH_16"),
    "Read16": ("scsi_cdb_read16", "Read16", "READ_16"),
    "Write16": ("scsi_cdb_write16", "Write16", "WRITE_16"),
    "SynchronizeCache16": ("scsi_cdb_synchronize_cache16", "SynchronizeCache16", "SYNCHRONIZE_CACHE_16"),
    "WriteSame16": ("scsi_cdb_writesame16", "WriteSame16", "WRITE_SAME_16"),
    "ReadCapacity16": ("scsi_cdb_readcapacity16", "ReadCapacity16", "#9E"),
    "GetLBAStatus": ("scsi_cdb_getlbastatus", "GetLBAStatus", "#9E"),
    "ReportLuns": ("scsi_cdb_report_luns", "ReportLuns", "REPORT_LUNS"),
    "ATAPassThrough12": ("scsi_cdb_atapassthrough12", "ATAPassThrough12", "ATA_PASS_THROUGH_12"),
    "ReportTargetPortGroups": ("scsi_cdb_report_target_port_groups", "ReportTargetPortGroups", "#A3"),
    "ReportPriority": ("scsi_cdb_report_priority", "ReportPriority", "#A3"),
    "MoveMedium": ("scsi_cdb_movemedium", "MoveMedium", "MOVE_MEDIUM"),
    "ExchangeMedium": ("scsi_cdb_exchangemedium", "ExchangeMedium", "EXCHANGE_MEDIUM"),
    "Read12": ("scsi_cdb_read12", "Read12", "READ_12"),
    "Write12": ("scsi_cdb_write12", "Write12", "WRITE_12"),
    "ReadElementStatus": ("scsi_cdb_readelementstatus", "ReadElementStatus", "READ_ELEMENT_STATUS"),
    "ReadCd": ("scsi_cdb_readcd", "ReadCd", "READ_CD"),
}

# the phase kinds of T10Cdb.tla that need extra, non-CDB constructor arguments
NEEDS_DATA = ("out_data", "out_block")


def klass(name):
    m, c, _ = REG[name]
    return getattr(mod("pyscsi.pyscsi." + m), c)


def opcode(name, setname):
    """the opcode object the facade would use for this class on this command set, or None"""
    ec = mod("pyscsi.pyscsi.scsi_enum_command")
    conv = mod("pyscsi.utils.converter")
    table = getattr(ec, setname)
    attr = REG[name][2]
    if attr.startswith("#"):
        # the entry the standard's code belongs to in this set, by its name (not through the library's
        # own lookup helper, which is part of what is being checked)
        generic = "%s_OPCODE_%s" % (setname.upper(), attr[1:])
        return getattr(table, generic) if generic in table.keys else None
    if attr in table.keys:
        return getattr(table, attr)
    return None


_PAT = {}


def pattern(n, salt=0):
    key = (n, salt & 0xFF)
    if key not in _PAT:
        base = bytes(((i * 7 + 3 + salt) & 0xFF) for i in range(256))
        _PAT[key] = (base * (n // 256 + 1))[:n]
    return bytearray(_PAT[key])


def benign(name, setname="sbc"):
    """construct some valid instance of the class (sets whatever per-class state the
    static marshall/unmarshall helpers rely on); returns the instance or raises"""
    K = klass(name)
    op = None
    for s in (setname, "sbc", "spc", "smc", "mmc", "ssc"):
        op = opcode(name, s)
        if op is not None:
            if name.startswith("PersistentReserve") and not list(op.serviceaction.keys):
                continue
            break
    if name in ("Read10", "Read12", "Read16"):
        return K(op, 1, 0, 0)
    if name in ("Write10", "Write12", "Write16"):
        return K(op, 1, 0, 0, bytearray())
    if name in ("WriteSame10", "WriteSame16"):
        return K(op, 1, 0, 0, bytearray(1))
    if name in ("ModeSelect6", "ModeSelect10"):
        return K(op, {"mode_pages": []})
    if name in ("ModeSense6", "ModeSense10"):
        return K(op, 0)
    if name == "PersistentReserveIn":
        return K(op, 0)
    if name == "PersistentReserveOut":
        return K(op, 0)
    if name == "OpenCloseImportExportElement":
        return K(op, 0, 0)
    if name == "PositionToElement":
        return K(op, 0, 0)
    if name in ("SynchronizeCache10", "SynchronizeCache16"):
        return K(op, 0, 0)
    if name == "InitializeElementStatusWithRange":
        return K(op, 0, 0)
    if name == "ReadDiscInformation":
        return K(op, 0)
    if name in ("ATAPassThrough16", "ATAPassThrough12"):
        return K(op, 0, 0, 0, 0, 0, 0, 0, 0, 0, 0)
    if name == "GetLBAStatus":
        return K(op, 0)
    if name == "MoveMedium":
        return K(op, 0, 0, 0)
    if name == "ExchangeMedium":
        return K(op, 0, 0, 0, 0)
    if name == "ReadElementStatus":
        return K(op, 0, 0)
    return K(op)


def construct(name, setname, a, phase, data="auto"):
    """Call the real constructor by keyword with the arguments of a spec case / random
    draw (a: argument name -> int).  Returns (cmd or None, exception class name or "",
    data passed or None)."""
    K = klass(name)
    op = opcode(name, setname)
    if op is None:
        return None, "#notoffered", None
    kw = {k: v for k, v in a.items() if not k.startswith("#")}
    passed = None
    if phase in NEEDS_DATA:
        bs = kw.get("blocksize", 0)
        if phase == "out_data":
            n = bs * kw.get("tl", 0)
        elif kw.get("ndob"):
            # NDOB = 1: the CDB announces no data-out buffer whatever the caller hands over; callers do
            # pass their block anyway (the repository's own test does), so both variants are exercised
            n = bs if (kw.get("lba", 0) + kw.get("nb", 0)) % 2 == 0 else 0
        else:
            n = bs
        passed = pattern(n, salt=len(kw))
        kw["data"] = passed
    elif phase == "ata" and "#datalen" in a:
        passed = pattern(a["#datalen"], salt=5)
        kw["data"] = passed
    elif phase == "ata" and (kw.get("lba", 0) + kw.get("count", 0)) % 3 == 0:
        kw["data"] = bytearray()          # an empty data argument means the same as none: buffers as the CDB says
    try:
        cmd = K(op, **kw)
    except Exception as ex:                 # refusal or defect: judged by the spec
        return None, type(ex).__name__, passed
    return cmd, "", passed


def event(name, setname, a, phase, cmd, exc, passed):
    e = {"ev": "Construct", "cls": name, "set": setname,
         "a": {k: num(v) for k, v in a.items() if not k.startswith("#") or k == "#datalen"},
         "exc": exc, "cdb": [], "dinlen": 0, "doutlen": 0, "bufs_ok": True, "dout_same": True}
    if cmd is not None:
        di, do = cmd.datain, cmd.dataout
        ok = isinstance(di, (bytes, bytearray)) and isinstance(do, (bytes, bytearray))
        e["bufs_ok"] = bool(ok)
        e["cdb"] = list(cmd.cdb) if isinstance(cmd.cdb, (bytes, bytearray)) else []
        e["dinlen"] = len(di) if isinstance(di, (bytes, bytearray)) else 0
        e["doutlen"] = len(do) if isinstance(do, (bytes, bytearray)) else 0
        if passed is not None and isinstance(do, (bytes, bytearray)) and not a.get("ndob"):
            e["dout_same"] = bytes(do) == bytes(passed)
    return e


def int_args(case_a):
    return {k: unnum(v) for k, v in case_a.items()}
