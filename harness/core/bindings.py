"""Install the stand-in bindings before the library's device modules are imported."""
import importlib
import os
import sys

from . import lib


def install(sgio=True, iscsi=True):
    """(Re)import the device modules with the given bindings present/absent.
    Returns (fake_sgio or None, fake_iscsi or None)."""
    lib.use_repo()
    from ..fakes import iscsi as fi
    from ..fakes import sgio as fs
    for k in ("sgio", "iscsi"):
        sys.modules.pop(k, None)
    if sgio:
        sys.modules["sgio"] = fs
    if iscsi:
        sys.modules["iscsi"] = fi
    for k in ("pyscsi.pyscsi.scsi_device", "pyscsi.pyiscsi.iscsi_device"):
        if k in sys.modules:
            importlib.reload(sys.modules[k])
    return (fs if sgio else None), (fi if iscsi else None)


SHM = "/dev/shm"


def shm_dir(tag):
    d = os.path.join(SHM, "pyscsi-verif-%d-%s" % (os.getpid(), tag))
    os.makedirs(d, exist_ok=True)
    return d
