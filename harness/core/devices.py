"""Duck-typed recording device for facade-level checks (no transport involved)."""


class RecDevice(object):
    """What the facade needs from a device: .opcodes, .devicetype, execute(), close().
    Records every execute call; `fill` (callable cmd -> None) plays the target."""

    def __init__(self, opcodes=None, fill=None):
        self._opcodes = opcodes
        self.devicetype = None
        self.calls = []
        self.fill = fill
        self.closed = 0

    @property
    def opcodes(self):
        return self._opcodes

    @opcodes.setter
    def opcodes(self, v):
        self._opcodes = v

    def execute(self, cmd, en_raw_sense=False):
        self.calls.append({"cmd": cmd, "cdb": bytes(cmd.cdb), "raw": en_raw_sense,
                           "din_id": id(cmd.datain), "dout_id": id(cmd.dataout),
                           "dinlen": len(cmd.datain), "doutlen": len(cmd.dataout)})
        if self.fill is not None:
            self.fill(cmd)

    def open(self):
        pass

    def close(self):
        self.closed += 1
