"""Parameter-data formats seen from the harness side: generators of (supposedly) well-formed
buffers and the public decoder to call for each format.  The generators are NOT trusted:
Trace_Data re-derives every expected value from the bytes and skips buffers whose embedded
lengths are not honest (T10Data!Okay)."""
import random

from .lib import mod
from .values import flatten


def rb(rng, n):
    return bytearray(rng.getrandbits(8) for _ in range(n))


def edge(rng, n):
    """n bytes: all-zero / all-ones / random / single bit"""
    m = rng.randrange(6)
    if m == 0:
        return bytearray(n)
    if m == 1:
        return bytearray([0xFF] * n)
    if m == 2 and n:
        b = bytearray(n)
        b[rng.randrange(n)] = 1 << rng.randrange(8)
        return b
    return rb(rng, n)


def be(x, n):
    return bytearray(x.to_bytes(n, "big"))


def slack(rng):
    return bytearray(rng.choice([0, 0, 1, 7]))


def count(rng):
    """descriptor count: mostly 0..3, sometimes enough to push the structure past 255 / 256 bytes"""
    return rng.randrange(0, 4) if rng.random() < 0.85 else rng.choice([17, 33, 40])


# ---- generators: return bytes ---------------------------------------------------------------------------

def g_ReadCapacity10(rng):
    return edge(rng, 8) + slack(rng)


def g_ReadCapacity16(rng):
    return edge(rng, 32) + slack(rng)


def g_ReportLuns(rng):
    n = count(rng)
    return be(8 * n, 4) + bytearray(4) + b"".join(edge(rng, 8) for _ in range(n)) + slack(rng)


def g_GetLBAStatus(rng):
    n = count(rng)
    return be(16 * n + 4, 4) + bytearray(4) + b"".join(edge(rng, 13) + bytearray(3) for _ in range(n)) + slack(rng)


def g_InquiryStd(rng):
    # the 36-byte minimum, the lengths around the CLOCKING byte (56), the usual 96: ADDITIONAL LENGTH says n - 5
    n = rng.choice([96, 96, 36, 57, 58, 74])
    b = edge(rng, n)
    b[4] = n - 5
    return b + (slack(rng) if n == 96 else bytearray())


def vpd(rng, code, body):
    return bytearray([rng.getrandbits(8), code]) + be(len(body), 2) + body + slack(rng)


def g_Vpd00(rng):
    return vpd(rng, 0x00, rb(rng, rng.choice([0, 1, 2, 5, 260])))


def g_Vpd80(rng):
    return vpd(rng, 0x80, rb(rng, rng.choice([0, 1, 8, 20, 252, 300])))


def g_Vpd86(rng):
    return vpd(rng, 0x86, edge(rng, 60))


def g_Vpd89(rng):
    return vpd(rng, 0x89, edge(rng, 4) + rb(rng, 564))


def g_VpdB0(rng):
    return vpd(rng, 0xB0, edge(rng, 60))


def g_VpdB1(rng):
    return vpd(rng, 0xB1, edge(rng, 60))


def g_VpdB2(rng):
    return vpd(rng, 0xB2, edge(rng, 4))


def g_VpdB3(rng):
    return vpd(rng, 0xB3, edge(rng, 12))


def designator(rng):
    t = rng.randrange(0, 10)
    if t == 0:
        d = rb(rng, rng.choice([0, 1, 9]))
    elif t == 1:
        d = rb(rng, 8 + rng.choice([0, 1, 12]))
    elif t == 2:
        d = rb(rng, rng.choice([8, 12, 16]))
    elif t == 3:
        naa = rng.choice([2, 3, 5, 6])
        d = edge(rng, 16 if naa == 6 else 8)
        d[0] = (naa << 4) | (d[0] & 0x0F)
    elif t in (4, 5, 6):
        d = bytearray(2) + edge(rng, 2)
    elif t == 7:
        d = rb(rng, 16)
    elif t == 8:
        d = bytearray(b"iqn.2001-04.com.example:x"[: rng.choice([4, 8, 24])])
        d += bytearray((-len(d)) % 4)
    else:
        d = edge(rng, 2) + bytearray(6)
    hdr = bytearray([(rng.randrange(16) << 4) | rng.choice([1, 2, 3]),
                     (rng.getrandbits(1) << 7) | (rng.randrange(3) << 4) | t, 0, len(d)])
    return hdr + d


def g_Vpd83(rng):
    return vpd(rng, 0x83, b"".join(designator(rng) for _ in range(count(rng))))


def mode_page(rng):
    k = rng.choice(["control", "ctrlext", "discon", "element"])
    ps = rng.getrandbits(1) << 7
    if k == "control":
        return bytearray([ps | 0x0A, 10]) + edge(rng, 10)
    if k == "ctrlext":
        return bytearray([ps | 0x40 | 0x0A, 1]) + be(28, 2) + edge(rng, 28)
    if k == "discon":
        return bytearray([ps | 0x02, 14]) + edge(rng, 14)
    return bytearray([ps | 0x1D, 18]) + edge(rng, 18)


def g_ModeSense6(rng, pages=None):
    n = rng.choice([1, 1, 1, 0, 2]) if pages is None else pages
    bd = bytearray(rng.choice([0, 0, 8]))
    body = bd + b"".join(mode_page(rng) for _ in range(n))
    if pages is None and n and rng.random() < 0.2:
        body += bytearray([rng.choice([0x02, 0x0A, 0x1D]), 0])      # a last page of PAGE LENGTH 0: still a page
    hdr = bytearray([0, rng.getrandbits(8), rng.getrandbits(8), len(bd)])
    hdr[0] = len(hdr) + len(body) - 1
    return hdr + body + slack(rng)


def g_ModeSense10(rng, pages=None):
    n = rng.choice([1, 1, 1, 0, 2]) if pages is None else pages
    bd = bytearray(rng.choice([0, 0, 8, 16]))
    body = bd + b"".join(mode_page(rng) for _ in range(n))
    hdr = bytearray([0, 0, rng.getrandbits(8), rng.getrandbits(8), rng.getrandbits(1), 0]) + be(len(bd), 2)
    hdr[0:2] = be(len(hdr) + len(body) - 2, 2)
    return hdr + body + slack(rng)


def tpg(rng):
    n = rng.randrange(0, 4)
    d = edge(rng, 8)
    d[0] &= 0x8F
    d[7] = n
    return d + b"".join(bytearray(2) + edge(rng, 2) for _ in range(n))


def g_RtpgLen(rng):
    body = b"".join(tpg(rng) for _ in range(count(rng)))
    return be(len(body), 4) + body + slack(rng)


def g_RtpgExt(rng):
    body = bytearray([0x10, rng.getrandbits(8), 0, 0]) + b"".join(tpg(rng) for _ in range(rng.randrange(0, 4)))
    return be(len(body), 4) + body + slack(rng)


def g_PrinKeys(rng):
    n = count(rng)
    return edge(rng, 4) + be(8 * n, 4) + b"".join(edge(rng, 8) for _ in range(n)) + slack(rng)


def g_PrinReservation(rng):
    if rng.random() < 0.3:
        return edge(rng, 4) + be(0, 4) + slack(rng)
    return edge(rng, 4) + be(16, 4) + edge(rng, 8) + bytearray(4) + bytearray(1) + edge(rng, 1) + bytearray(2) + slack(rng)


def g_PrinCapabilities(rng):
    return be(8, 2) + edge(rng, 4) + bytearray(2) + slack(rng)


def transport_id(rng):
    p = rng.choice([0, 3, 4, 5, 5, 6])
    if p == 5:
        fmt = rng.getrandbits(1)
        # names that agree in a long prefix and differ late, in few distinct lengths
        name = "iqn.1993-08.org.debian:01:" + "".join(rng.choice("abcdef01") for _ in range(rng.choice([1, 2, 2, 6, 6, 9])))
        if fmt:
            name += ",i,0x" + "0123456789ab"[: rng.choice([2, 12])]
        raw = name.encode() + b"\0"
        raw += b"\0" * ((-len(raw)) % 4)
        return bytearray([(fmt << 6) | 5, 0]) + be(len(raw), 2) + raw
    d = rb(rng, 24)
    d[0] = p
    return d


def g_PrinFullStatus(rng):
    body = bytearray()
    for _ in range(count(rng) % 20):
        t = transport_id(rng)
        body += edge(rng, 8) + bytearray(4) + edge(rng, 2) + bytearray(4) + edge(rng, 2) + be(len(t), 4) + t
    return edge(rng, 4) + be(len(body), 4) + body + slack(rng)


def g_Rdi(rng):
    b = edge(rng, 34 + rng.choice([0, 8]))
    b[2] = (rng.choice([0, 0, 1, 2]) << 5) | (b[2] & 0x1F)
    b[0:2] = be(len(b) - 2, 2)
    return b


def g_ReadElementStatus(rng):
    pages = bytearray()
    for _ in range(rng.randrange(0, 4)):
        et = rng.choice([1, 2, 3, 4])
        pv, av = rng.getrandbits(1), rng.getrandbits(1)
        edl = 12 + 36 * pv + 36 * av + rng.choice([0, 4])
        n = count(rng) % 24
        descr = b"".join(edge(rng, edl) for _ in range(n))
        pages += bytearray([et, (pv << 7) | (av << 6)]) + be(edl, 2) + bytearray(1) + be(len(descr), 3) + descr
    return edge(rng, 4) + bytearray(1) + be(len(pages), 3) + pages + slack(rng)


def g_ReportPriority(rng):
    body = bytearray()
    for _ in range(rng.randrange(0, 4)):
        t = transport_id(rng)
        body += bytearray([rng.randrange(16), 0]) + edge(rng, 2) + bytearray(2) + be(len(t), 2) + t
    return be(len(body), 4) + body + slack(rng)


def big_element_status(rng):
    """one element status page whose BYTE COUNT OF DESCRIPTOR DATA AVAILABLE needs all three bytes,
    followed by a small second page"""
    edl = 88
    n = 746                      # 746 * 88 = 65648 > 65535
    descr = b"".join(edge(rng, edl) for _ in range(n))
    pages = bytearray([2, 0xC0]) + be(edl, 2) + bytearray(1) + be(len(descr), 3) + descr
    d2 = edge(rng, 16)
    pages += bytearray([4, 0]) + be(16, 2) + bytearray(1) + be(16, 3) + d2
    return edge(rng, 4) + bytearray(1) + be(len(pages), 3) + pages


GEN = {k[2:]: v for k, v in list(globals().items()) if k.startswith("g_")}


# ---- decoders: the public unmarshall routine of each format ------------------------------------------------

def decoder(fmt):
    P = "pyscsi.pyscsi."
    if fmt == "InquiryStd":
        K = mod(P + "scsi_cdb_inquiry").Inquiry
        return lambda b: K.unmarshall_datain(b, evpd=0)
    if fmt.startswith("Vpd"):
        K = mod(P + "scsi_cdb_inquiry").Inquiry
        return lambda b: K.unmarshall_datain(b, evpd=1)
    table = {
        "ReadCapacity10": ("scsi_cdb_readcapacity10", "ReadCapacity10"),
        "ReadCapacity16": ("scsi_cdb_readcapacity16", "ReadCapacity16"),
        "ReportLuns": ("scsi_cdb_report_luns", "ReportLuns"),
        "GetLBAStatus": ("scsi_cdb_getlbastatus", "GetLBAStatus"),
        "ModeSense6": ("scsi_cdb_modesense6", "ModeSense6"),
        "ModeSense10": ("scsi_cdb_modesense10", "ModeSense10"),
        "RtpgLen": ("scsi_cdb_report_target_port_groups", "ReportTargetPortGroups"),
        "RtpgExt": ("scsi_cdb_report_target_port_groups", "ReportTargetPortGroups"),
        "PrinKeys": ("scsi_cdb_persistentreservein", "PersistentReserveInReadKeys"),
        "PrinReservation": ("scsi_cdb_persistentreservein", "PersistentReserveInReadReservation"),
        "PrinCapabilities": ("scsi_cdb_persistentreservein", "PersistentReserveInReportCapabilities"),
        "PrinFullStatus": ("scsi_cdb_persistentreservein", "PersistentReserveInReadFullStatus"),
        "Rdi": ("scsi_cdb_readdiscinformation", "ReadDiscInformation"),
        "ReadElementStatus": ("scsi_cdb_readelementstatus", "ReadElementStatus"),
        "ReportPriority": ("scsi_cdb_report_priority", "ReportPriority"),
    }
    m, c = table[fmt]
    K = getattr(mod(P + m), c)
    return lambda b: K.unmarshall_datain(b)


def unmarshal_event(fmt, buf, dec=None):
    dec = dec or decoder(fmt)
    e = {"ev": "Unmarshal", "fmt": fmt, "bytes": list(buf), "out": {}, "exc": ""}
    try:
        b = bytearray(buf)
        r = dec(b)
        e["out"] = flatten(r) if r is not None else {}
        if bytes(b) != bytes(buf):
            e["exc"] = "DecoderChangedTheBuffer"       # the data-in buffer belongs to the command: decoding reads it
        else:
            # ... and the result is a value of its own: the buffer is used again (overwritten in place, as the next
            # execution of the same command does) and the result still says what the device had sent
            b[:] = bytes((x ^ 0xFF) & 0xFF for x in b)
            try:
                again = flatten(r) if r is not None else {}
            except Exception:
                again = None
            if again != e["out"]:
                e["exc"] = "ResultFollowsTheBuffer"
    except Exception as ex:
        e["exc"] = type(ex).__name__
    if not e["out"]:
        e["out"] = {"#empty": []}
    return e
