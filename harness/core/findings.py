"""known_findings.json: committed, never written at run time (DESIGN 7.2).

Entry: {"property": "C04", "status": "known"|"fixed", "match": {k: v, ...},
        "commit": "...", "description": "..."}
A violation record (dict) matches an entry when every key of entry.match equals the
record's value for that key (structured fields only; no free-text matching).
Only status == "known" suppresses; "fixed" entries suppress nothing.
"""
import json
import os

VERIF = os.path.dirname(os.path.dirname(os.path.dirname(os.path.abspath(__file__))))


def load():
    p = os.path.join(VERIF, "known_findings.json")
    if not os.path.exists(p):
        return []
    with open(p) as f:
        return json.load(f)["findings"]


def match(pid, record, entries=None):
    entries = load() if entries is None else entries
    for e in entries:
        if e.get("property") != pid or e.get("status") != "known":
            continue
        if all(record.get(k) == v for k, v in e.get("match", {}).items()):
            return e
    return None
