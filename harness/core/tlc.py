"""Run TLC and parse what it prints.

Everything TLC-related goes through here: model-checking runs (states, transitions,
per-action coverage, exported CASE lines) and trace-judging runs (VERDICT lines).
Scratch lives under /verif/work and is removed after each run.
"""
import json
import os
import re
import shutil
import subprocess
import time
import uuid

VERIF = os.path.dirname(os.path.dirname(os.path.dirname(os.path.abspath(__file__))))
SPEC = os.path.join(VERIF, "spec")
WORK = os.path.join(VERIF, "work")
JAR = "/opt/veriftools/tla/tla2tools.jar:/opt/veriftools/tla/CommunityModules-deps.jar"


class TLCFailure(Exception):
    """Machinery failure (exit 2), never a property violation."""


class TLCResult(object):
    def __init__(self):
        self.states = 0          # states generated
        self.distinct = 0
        self.depth = 0
        self.ok = False          # finished without error
        self.violated = None     # name of violated invariant/property, if any
        self.coverage = {}       # action name -> (count_total, count_distinct)
        self.prints = []         # list of parsed PrintT payloads: (tag, value)
        self.raw = ""
        self.wall = 0.0
        self.cmd = ""
        self.counterexample = ""


def _scratch(name):
    d = os.path.join(WORK, "%s-%s" % (name, uuid.uuid4().hex[:8]))
    os.makedirs(d, exist_ok=True)
    return d


_PRINT_RE = re.compile(r'^<<"([A-Z_]+)", (.*)>>$', re.S)


def _unescape_tla_string(s):
    # TLC prints a TLA+ string with \" and \\ escapes
    out = []
    i = 0
    while i < len(s):
        c = s[i]
        if c == "\\" and i + 1 < len(s):
            n = s[i + 1]
            if n == "n":
                out.append("\n")
            elif n == "t":
                out.append("\t")
            else:
                out.append(n)
            i += 2
        else:
            out.append(c)
            i += 1
    return "".join(out)


def parse_prints(text):
    """PrintT(<<"TAG", ToJson(x)>>) lines -> [(TAG, x)].

    The payload is always a JSON string produced by ToJson, so each print is one
    line `<<"TAG", "....">>`; with several workers lines can interleave only at
    line granularity (TLC prints with a single println).
    """
    res = []
    for line in text.splitlines():
        line = line.strip()
        if not line.startswith('<<"'):
            continue
        m = _PRINT_RE.match(line)
        if not m:
            continue
        tag, payload = m.group(1), m.group(2).strip()
        if payload.startswith('"') and payload.endswith('"'):
            js = _unescape_tla_string(payload[1:-1])
            try:
                res.append((tag, json.loads(js)))
                continue
            except ValueError:
                pass
        # plain TLA+ value (ints / small tuples): keep as text
        res.append((tag, payload))
    return res


def run(module, cfg=None, workers=1, timeout=600, env=None, extra=None, name=None,
        coverage=False, simulate=None, deadlock=None, heap="3g", dfid=None,
        keep=False):
    """Run TLC on spec/<module>.tla with spec/<cfg>.

    Returns TLCResult. Raises TLCFailure when TLC could not run to a verdict
    (parse error, timeout, crash).
    """
    cfg = cfg or (module + ".cfg")
    meta = _scratch(name or module)
    cmd = ["java", "-XX:+UseParallelGC", "-Xmx" + heap, "-Xss64m",
           "-cp", JAR, "tlc2.TLC",
           "-workers", str(workers), "-metadir", meta, "-noGenerateSpecTE",
           "-config", cfg]
    if coverage:
        cmd += ["-coverage", "1"]
    if simulate:
        cmd += ["-simulate", simulate]
    if deadlock is False:
        cmd += ["-deadlock"]
    if extra:
        cmd += list(extra)
    cmd += [module + ".tla"]
    e = dict(os.environ)
    e.pop("JAVA_TOOL_OPTIONS", None)
    if env:
        e.update(env)
    r = TLCResult()
    r.cmd = " ".join(cmd)
    t0 = time.time()
    try:
        for attempt in range(4):
            p = subprocess.run(cmd, cwd=SPEC, env=e, stdout=subprocess.PIPE,
                               stderr=subprocess.STDOUT, timeout=timeout)
            out = p.stdout.decode("utf-8", "replace")
            rc = p.returncode
            # TLC 1.8 with many workers now and then dies of a Java StackOverflowError in its own machinery
            # (seen on MC_Transport, about one run in fifteen, different point each time): a JVM-level accident,
            # not a verdict - the run is repeated with a clean state directory
            if rc != 0 and "Java StackOverflowError" in out and "is violated" not in out and attempt < 3:
                shutil.rmtree(meta, ignore_errors=True)
                continue
            break
    except subprocess.TimeoutExpired as ex:
        out = (ex.stdout or b"").decode("utf-8", "replace")
        if not keep:
            shutil.rmtree(meta, ignore_errors=True)
        raise TLCFailure("TLC timed out after %ss: %s\n%s" % (timeout, r.cmd, out[-2000:]))
    finally:
        r.wall = time.time() - t0
    r.raw = out
    if not keep:
        shutil.rmtree(meta, ignore_errors=True)
    m = re.search(r"(\d+) states generated, (\d+) distinct states found", out)
    if m:
        r.states, r.distinct = int(m.group(1)), int(m.group(2))
    m = re.search(r"The depth of the complete state graph search is (\d+)", out)
    if m:
        r.depth = int(m.group(1))
    m = re.search(r"Invariant (\S+) is violated", out)
    if m:
        r.violated = m.group(1)
    m2 = re.search(r"Action property (\S+) is violated|Temporal propert(?:y|ies) (\S+ )?w(?:as|ere) violated|"
                   r"The postcondition \S* ?(?:was|is) violated|Deadlock reached", out)
    if m2 and not r.violated:
        r.violated = m2.group(1) or m2.group(0)
    if r.violated:
        i = out.find("Error:")
        r.counterexample = out[i:i + 20000] if i >= 0 else ""
    r.prints = parse_prints(out)
    for m in re.finditer(r"^<(\w+) line \d+, col \d+ to line \d+, col \d+ of module (\w+)(?: \([\d ]+\))?>: (\d+):(\d+)",
                         out, re.M):
        a = m.group(1)
        d, t = int(m.group(3)), int(m.group(4))
        old = r.coverage.get(a, (0, 0))
        r.coverage[a] = (old[0] + t, old[1] + d)
    finished = "Model checking completed" in out or "Finished in" in out
    r.ok = finished and rc == 0 and r.violated is None
    if r.violated is None and rc != 0 and simulate is None:
        i = out.find("Error:")
        raise TLCFailure("TLC failed (rc=%s): %s\n%s\n...\n%s" % (rc, r.cmd, out[i:i + 1500] if i >= 0 else "", out[-2500:]))
    return r


def sany(module):
    cmd = ["java", "-cp", JAR, "tla2sany.SANY", module + ".tla"]
    p = subprocess.run(cmd, cwd=SPEC, stdout=subprocess.PIPE, stderr=subprocess.STDOUT, timeout=120)
    out = p.stdout.decode("utf-8", "replace")
    ok = p.returncode == 0 and "Semantic errors" not in out and "Parse Error" not in out \
        and "Fatal errors" not in out and "*** Errors" not in out
    return ok, out


def judge_traces(module, cfg, events, shard=None, procs=16, timeout=600, name=None, boundary=None):
    """Code -> spec: have TLC judge recorded events.

    `events` is a list of JSON-able dicts. They are sharded over single-worker TLC
    processes (the trace spec is a linear chain of states, so workers do not help
    inside one process). Every trace spec prints
        <<"VERDICT", ToJson([i |-> l, clause |-> .., detail |-> ..])>>   per rejected event
        <<"CONSUMED", ToJson([n |-> l - 1])>>                            once at the end
    Returns (verdicts, stats) with verdicts = [(global_index, clause, detail)].
    """
    import concurrent.futures as cf
    if not events:
        return [], {"states": 0, "transitions": 0, "shards": 0, "wall": 0.0}
    if shard is None:
        shard = min(2500, max(100, -(-len(events) // procs)))
    d = _scratch(name or module)
    shards = []
    if boundary is None:
        starts = list(range(0, len(events), shard))
    else:
        # a stateful judge: a shard may only start at an event where the judged state starts afresh
        starts, k = [0], 0
        for i, e in enumerate(events):
            if i - k >= shard and boundary(e):
                starts.append(i)
                k = i
    for n, k in enumerate(starts):
        end = starts[n + 1] if n + 1 < len(starts) else len(events)
        path = os.path.join(d, "trace_%07d.json" % k)
        with open(path, "w") as f:
            json.dump(events[k:end], f, separators=(",", ":"))
        shards.append((k, path, end - k))

    def one(s):
        k, path, n = s
        r = run(module, cfg, workers=1, timeout=timeout, env={"TRACE_FILE": path},
                name=(name or module) + "-j", deadlock=False)
        consumed = None
        vs = []
        for tag, val in r.prints:
            if tag == "VERDICT":
                vs.append((k + int(val["i"]) - 1, val["clause"], val.get("detail", "")))
            elif tag == "CONSUMED":
                consumed = int(val["n"])
        if r.violated and r.violated != "TraceAccepted":
            raise TLCFailure("trace spec %s violated %s on %s\n%s" % (module, r.violated, path, r.raw[-3000:]))
        if consumed != n:
            raise TLCFailure("trace shard %s: consumed %s of %s events\n%s" % (path, consumed, n, r.raw[-3000:]))
        return vs, r.states, r.distinct, r.wall

    t0 = time.time()
    verdicts = []
    st = tr = 0
    try:
        with cf.ThreadPoolExecutor(max_workers=procs) as ex:
            for vs, s, dd, w in ex.map(one, shards):
                verdicts += vs
                st += dd
                tr += s
    finally:
        shutil.rmtree(d, ignore_errors=True)
    verdicts.sort()
    return verdicts, {"states": st, "transitions": tr, "shards": len(shards), "wall": time.time() - t0}
