"""Common skeleton of a property check: collect violations, write replay files,
match known findings, write evidence, exit code."""
import json
import os
import sys
import traceback

from . import findings
from .evidence import Evidence
from .tlc import TLCFailure

VERIF = os.path.dirname(os.path.dirname(os.path.dirname(os.path.abspath(__file__))))
REPO = os.environ.get("VERIF_REPO", "/repo")


class Check(object):
    def __init__(self, pid, tier, seed, level="model_checking"):
        self.pid = pid
        self.tier = tier
        self.seed = seed
        self.ev = Evidence(pid, tier, seed, level)
        self.viol = []       # records
        self.known = {}      # description -> count
        self._entries = findings.load()
        self._outdir = os.path.join(VERIF, "out", pid)
        self._n = 0
        self._seen = set()

    def only(self, rec, keys=("clause", "cls", "set", "field", "fmt", "path")):
        """replay mode: re-run the check on the working tree but report only violations
        that agree with the replayed record on the given structured keys"""
        want = {k: rec.get(k) for k in keys if k in rec}
        orig = self.violation

        def filt(record, dedup=None):
            if all(record.get(k) == v for k, v in want.items()):
                return orig(record, dedup)
            return False
        self.violation = filt

    @property
    def quick(self):
        return self.tier == "quick"

    def violation(self, record, dedup=None):
        """record: dict with at least 'clause'; structured fields used for matching
        known findings. dedup: key under which identical reports collapse."""
        record = dict(record)
        record["property"] = self.pid
        e = findings.match(self.pid, record, self._entries)
        if e is not None:
            d = e.get("description", "")
            self.known[d] = self.known.get(d, 0) + 1
            return False
        key = dedup if dedup is not None else json.dumps(record, sort_keys=True, default=str)
        if key in self._seen:
            return True
        self._seen.add(key)
        self.viol.append(record)
        return True

    def finish(self, replay_path=None):
        os.makedirs(self._outdir, exist_ok=True)
        if replay_path is None:
            for f in os.listdir(self._outdir):          # replay files of earlier runs of this tier/seed
                if f.startswith("%s_%s_" % (self.tier, self.seed)):
                    os.unlink(os.path.join(self._outdir, f))
        if replay_path is not None:
            for d, n in sorted(self.known.items()):
                print("KNOWN-FINDING: property=%s %s" % (self.pid, d))
            for rec in self.viol[:5]:
                print("VIOLATION property=%s replay=%s" % (self.pid, replay_path))
                print("  clause=%s %s" % (rec.get("clause"), json.dumps(rec.get("detail"), default=str)[:600]))
            return 1 if self.viol else 0
        for d, n in sorted(self.known.items()):
            print("KNOWN-FINDING: property=%s %s (%d events)" % (self.pid, d, n))
            self.ev.cov["known_findings_hit"].append({"finding": d, "events": n})
        # at most 25 VIOLATION lines; all records go to one file each
        for i, rec in enumerate(self.viol[:200]):
            path = os.path.join(self._outdir, "%s_%s_%03d.json" % (self.tier, self.seed, i))
            rec["seed"] = self.seed
            rec["how_to_replay"] = "cd /verif && ./bin/check %s --replay %s" % (self.pid, path)
            with open(path, "w") as f:
                json.dump(rec, f, indent=1, sort_keys=True, default=str)
            if i < 25:
                print("VIOLATION property=%s replay=%s" % (self.pid, path))
                print("  clause=%s %s" % (rec.get("clause"), json.dumps(
                    {k: v for k, v in rec.items() if k in ("cls", "fmt", "field", "path", "detail", "what")},
                    default=str)[:300]))
        if len(self.viol) > 25:
            print("... %d further violations (files under %s)" % (len(self.viol) - 25, self._outdir))
        self.ev.violations = len(self.viol)
        self.ev.write()
        return 1 if self.viol else 0


def main(pid, fn, argv=None, level="model_checking"):
    import argparse
    ap = argparse.ArgumentParser()
    ap.add_argument("--tier", default=os.environ.get("VERIF_TIER", "quick"), choices=["quick", "thorough"])
    ap.add_argument("--seed", type=int, default=int(os.environ.get("VERIF_SEED", "0") or 0))
    ap.add_argument("--replay", default=None)
    a = ap.parse_args(argv)
    chk = Check(pid, a.tier, a.seed, level)
    try:
        if a.replay:
            with open(a.replay) as f:
                rec = json.load(f)
            fn(chk, replay=rec)
            rc = chk.finish(replay_path=a.replay)
        else:
            fn(chk, replay=None)
            rc = chk.finish()
    except TLCFailure as ex:
        print("MACHINERY-FAILURE property=%s: %s" % (pid, ex))
        rc = 2
    except Exception:
        traceback.print_exc()
        print("MACHINERY-FAILURE property=%s (harness exception above)" % pid)
        rc = 2
    sys.exit(rc)
