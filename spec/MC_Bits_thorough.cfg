SPECIFICATION Spec
CONSTANTS
  NBytes = 4
  MaxStart = 23
  MaxW = 24
  ExhW = 6
INVARIANT Readback
INVARIANT Untouched
INVARIANT ConfluentInv
INVARIANT IsBytes
INVARIANT IntLaws
CHECK_DEADLOCK FALSE
