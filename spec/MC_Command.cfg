SPECIFICATION MCSpec
CONSTANTS
  Roles = {"A", "B"}
  Slots = {"s1", "s2"}
  MaxLen = 4
PROPERTY Isolation
CHECK_DEADLOCK FALSE
