----------------------------- MODULE Trace_Bits -----------------------------
(***************************************************************************)
(* Code -> spec for C10: every recorded call of the four converter          *)
(* functions is one event; TLC recomputes the result from Bits.tla and      *)
(* reports each event whose recorded result differs (total verdicts: a      *)
(* rejected event never stops the run).                                     *)
(***************************************************************************)
EXTENDS Bits, TLC, Json, IOUtils

Trace == JsonDeserialize(IOEnv.TRACE_FILE)

VARIABLE l

F(p) == [b |-> p[1] \div 8, m |-> 7 - (p[1] % 8), w |-> p[2]]
Fs(e) == [i \in 1..Len(e.layout) |-> F(e.layout[i])]

OutsideSame(a, b, fs) ==
    \A p \in 0..(8 * Len(a) - 1) :
        (\A i \in 1..Len(fs) : p \notin FieldPos(fs[i])) => LinBit(a, p) = LinBit(b, p)

Judge(e) ==
    CASE e.fn = "encode" ->
           LET fs == Fs(e) exp == PutAll(e.before, fs, e.vals) IN
           IF Len(e.after) # Len(e.before) THEN <<"BufferLengthKept", "">>
           ELSE IF e.after = exp THEN <<>>
           ELSE IF ~OutsideSame(e.after, e.before, fs) THEN <<"PutTouchesOnlyField", ToJson(exp)>>
           ELSE <<"GetPut", ToJson(exp)>>
      [] e.fn = "decode" ->
           LET fs == Fs(e)
               bad == {i \in 1..Len(fs) : ~NumEq(Get(e.buf, fs[i]), e.out[i])} IN
           IF bad = {} THEN <<>> ELSE <<"GetReadsOnlyField", ToJson(bad)>>
      [] e.fn = "int_to_ba" ->
           IF e.out = IntToBA(e.v, e.k) THEN <<>> ELSE <<"IntToBA", ToJson(IntToBA(e.v, e.k))>>
      [] e.fn = "ba_to_int" ->
           IF NumEq(e.out, BE(e.ba)) THEN <<>> ELSE <<"BE", ToJson(BE(e.ba))>>
      [] e.fn = "encode_blob" ->
           LET n == BlobUnit(e.kind) * e.len
               exp == PutBlob(e.before, e.off, e.value) IN
           IF Len(e.value) # n THEN <<>>      \* out of range: not judged
           ELSE IF e.after = exp THEN <<>> ELSE <<"BlobPut", ToJson(exp)>>
      [] e.fn = "decode_blob" ->
           LET exp == Sub(e.buf, e.off, BlobUnit(e.kind) * e.len) IN
           IF e.out = exp THEN <<>> ELSE <<"BlobGet", ToJson(exp)>>
      \* several blobs (bytes, words, dwords, in the order given) written by ONE call: each lands in its own bytes,
      \* whatever kind the blob before it had
      [] e.fn = "encode_blobs" ->
           LET RECURSIVE PutSeq(_, _)
               PutSeq(buf, i) == IF i > Len(e.blobs) THEN buf
                                 ELSE PutSeq(PutBlob(buf, e.blobs[i].off, e.blobs[i].value), i + 1)
               exp == PutSeq(e.before, 1) IN
           IF Len(e.after) # Len(e.before) THEN <<"BufferLengthKept", ToJson(Len(e.after))>>
           ELSE IF e.after = exp THEN <<>> ELSE <<"BlobPut", ToJson(exp)>>
      \* a decoded blob is a value of its own: editing it leaves the buffer alone, editing the buffer leaves it alone
      [] e.fn = "blob_snapshot" ->
           IF e.buf_now = e.buf /\ e.out_now = e.out THEN <<>> ELSE <<"BlobSnapshot", ToJson(e.buf)>>
      [] OTHER -> <<"UnknownEvent", "">>

Init == l = 1

Step == /\ l <= Len(Trace)
        /\ LET v == Judge(Trace[l]) IN
             \/ v = <<>>
             \/ /\ v # <<>>
                /\ PrintT(<<"VERDICT", ToJson([i |-> l, clause |-> v[1], detail |-> v[2]])>>)
        /\ l' = l + 1

Finish == /\ l = Len(Trace) + 1
          /\ PrintT(<<"CONSUMED", ToJson([n |-> l - 1])>>)
          /\ UNCHANGED l

Next == Step \/ Finish

Spec == Init /\ [][Next]_l
=============================================================================
