---------------------------- MODULE CommandRules ----------------------------
(* Judging rules for recorded constructor / marshall_cdb / unmarshall_cdb calls, shared by
   Trace_Command (C01 C02 C03 C17) and Trace_Isolation (C09).  See Trace_Command.tla. *)
EXTENDS T10Cdb, Json, IOUtils


Dom(r) == DOMAIN r

\* arguments of the event with the announced parameter list length filled in
WithPlen(e) ==
    IF Cmd[e.cls].phase.k = "out_list"
    THEN Ev([k \in Dom(e.a) \cup {"#plen"} |-> IF k = "#plen" THEN N(e.doutlen) ELSE e.a[k]])
    ELSE e.a

InRange(c, a) ==
    \A i \in 1..Len(Cmd[c].fields) :
        LET f == Cmd[c].fields[i] IN
        f.arg \in Dom(a) => Fits(a[f.arg], f.w)

\* names of the fields (keys) whose bits in `got` differ from `exp`
DiffKeys(c, got, exp) ==
    LET L == Cmd[c]
        fk == {L.fields[i].key : i \in {j \in 1..Len(L.fields) :
                    \E s \in {L.fields[j].segs[x] : x \in 1..Len(L.fields[j].segs)} : Get(got, s) # Get(exp, s)}}
        op == IF got[1] # exp[1] THEN {"opcode"} ELSE {}
        sa == IF L.sa # NoSA /\ Get(got, SASeg) # Get(exp, SASeg) THEN {"service_action"} ELSE {}
    IN fk \cup op \cup sa

DinLenC(c, a) == DinLen(c, a)
DoutLenC(c, a) == DoutLen(c, a)

\* the arguments as a conformant target reads them from the CDB that was actually built,
\* completed by the arguments that are not carried in the CDB (block size, extra_tl, ...)
FromCdb(c, cdb, a) ==
    LET t == TargetDecode(c, cdb) IN
    Ev([k \in Dom(a) \cup Dom(t) |-> IF k \in Dom(t) THEN t[k] ELSE a[k]])

JConstructP(e, L, a, rf) ==
    IF ~InRange(e.cls, a) THEN {}
    ELSE IF rf # "" THEN (IF e.exc = rf THEN {} ELSE {<<"RefusedBeforeSend", rf>>})
    ELSE IF e.exc # "" THEN {<<"Constructible", e.exc>>}
    ELSE
      LET exp == EncodeCdb(e.cls, a)
          ph  == L.phase
          ac  == IF Len(e.cdb) = L.len THEN FromCdb(e.cls, e.cdb, a) ELSE a   \* what the CDB announces
          wire == IF Len(e.cdb) # L.len THEN {<<"CdbLength", ToString(L.len)>>}
                  ELSE IF e.cdb = exp THEN {}
                  ELSE LET dk == DiffKeys(e.cls, e.cdb, exp) IN
                       IF dk = {} THEN {<<"OtherBitsZero", ToJson(exp)>>}
                       ELSE {<<"WireFormat", ToJson(dk)>>}
          bufs == IF e.bufs_ok THEN {} ELSE {<<"ByteBuffers", "">>}
          din  == IF ph.k = "readcd"
                  THEN LET tl == A(ac, "tl", Z) IN
                       IF (Strip(tl) = <<>> /\ e.dinlen # 0) \/ e.dinlen < Mul(tl, N(SectorBytesMax(ac)))
                       THEN {<<"DataInLength", "tl*sector bytes">>} ELSE {}
                  ELSE IF e.dinlen = DinLenC(e.cls, ac) THEN {}
                       ELSE {<<"DataInLength", ToString(DinLenC(e.cls, ac))>>}
          dout == IF ph.k = "out_list" THEN {}         \* announced length is the plen field above
                  ELSE IF e.doutlen # DoutLenC(e.cls, ac) THEN {<<"DataOutLength", ToString(DoutLenC(e.cls, ac))>>}
                  ELSE IF ph.k \in {"out_data", "out_block"} /\ DoutLenC(e.cls, ac) > 0 /\ ~e.dout_same
                       THEN {<<"DataOutIsCallersData", "">>} ELSE {}
      IN wire \cup bufs \cup din \cup dout

JConstruct(e) == JConstructP(e, Cmd[e.cls], WithPlen(e), Refusal(e.cls, e.a))

\* dictionary level
FullDict(c, cdb) ==
    LET d == DictDecode(c, cdb) IN
    Ev([k \in Dom(d) \cup {"opcode"} \cup (IF HasSAKey(c) THEN {"service_action"} ELSE {}) |->
          IF k = "opcode" THEN N(cdb[1])
          ELSE IF k = "service_action" /\ k \notin Dom(d) THEN Get(cdb, SASeg)
          ELSE d[k]])

JDecodeP(e, exp) ==
    LET common == Dom(exp) \cap Dom(e.out)
        bad == {k \in common : ~NumEq(exp[k], e.out[k])}
        missing == Dom(exp) \ Dom(e.out) IN
    IF Len(e.in) # Cmd[e.cls].len THEN {}
    ELSE (IF bad # {} THEN {<<"DecEnc", ToJson(bad)>>} ELSE {})
         \cup (IF missing # {} THEN {<<"DecodeReportsEveryField", ToJson(missing)>>} ELSE {})
JDecode(e) == JDecodeP(e, FullDict(e.cls, e.in))

JEncodeP(e, exp) ==
    IF \E k \in Dom(e.d) \cap KeysOf(e.cls) : ~Fits(e.d[k], FieldOfKey(e.cls, k).w) THEN {}
    ELSE IF e.out = exp THEN {}
    ELSE IF Len(e.out) # Len(exp) THEN {<<"CdbLength", ToString(Len(exp))>>}
    ELSE {<<"EncDec", ToJson(exp)>>}
JEncode(e) == JEncodeP(e, DictEncode(e.cls, e.d))

Judge(e) ==
    CASE e.ev = "Construct"   -> JConstruct(e)
      [] e.ev = "EncodeDict"  -> JEncode(e)
      [] e.ev = "DecodeBytes" -> JDecode(e)
      [] OTHER -> {<<"UnknownEvent", "">>}

=============================================================================
