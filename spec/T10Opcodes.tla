---------------------------- MODULE T10Opcodes ----------------------------
(***************************************************************************)
(* Operation codes, service actions and status codes as T10 assigns them,  *)
(* keyed by the standard command names (upper case, blanks and slashes as  *)
(* underscores, the CDB size as a suffix where the standard has several).  *)
(* Sources: SPC-4 annex E (numeric order codes), SBC-3 table 35, SSC-4,     *)
(* SMC-3, MMC-6 table 102, SCC-2 (MAINTENANCE IN/OUT), SAM-5 table 40       *)
(* (status codes).  Cross-read against /usr/include/scsi/scsi.h and         *)
(* /usr/include/linux/cdrom.h.  Written without looking at the values in    *)
(* the library's tables; a name the library uses that is missing here is    *)
(* reported as "unjudged", never as a violation.                            *)
(***************************************************************************)
EXTENDS Naturals, Sequences, FiniteSets, TLC

\* ---- primary commands (SPC-4), valid for every device type ---------------
SPC ==
  [ ACCESS_CONTROL_IN |-> \h86, ACCESS_CONTROL_OUT |-> \h87, EXTENDED_COPY |-> \h83,
    INQUIRY |-> \h12, LOG_SELECT |-> \h4C, LOG_SENSE |-> \h4D,
    MODE_SELECT_6 |-> \h15, MODE_SELECT_10 |-> \h55, MODE_SENSE_6 |-> \h1A, MODE_SENSE_10 |-> \h5A,
    PERSISTENT_RESERVE_IN |-> \h5E, PERSISTENT_RESERVE_OUT |-> \h5F,
    PREVENT_ALLOW_MEDIUM_REMOVAL |-> \h1E, READ_ATTRIBUTE |-> \h8C,
    READ_BUFFER_10 |-> \h3C, READ_BUFFER_16 |-> \h9B, READ_MEDIA_SERIAL_NUMBER |-> \hAB,
    RECEIVE_COPY_RESULTS |-> \h84, RECEIVE_DIAGNOSTIC_RESULTS |-> \h1C,
    REPORT_LUNS |-> \hA0, REQUEST_SENSE |-> \h03, SEND_DIAGNOSTIC |-> \h1D,
    TEST_UNIT_READY |-> \h00, WRITE_ATTRIBUTE |-> \h8D, WRITE_BUFFER |-> \h3B,
    MAINTENANCE_IN |-> \hA3, MAINTENANCE_OUT |-> \hA4,
    RELEASE_6 |-> \h17, RELEASE_10 |-> \h57, RESERVE_6 |-> \h16, RESERVE_10 |-> \h56,
    SECURITY_PROTOCOL_IN |-> \hA2, SECURITY_PROTOCOL_OUT |-> \hB5,
    REDUNDANCY_GROUP_IN |-> \hBA, REDUNDANCY_GROUP_OUT |-> \hBB,
    SPARE_IN |-> \hBC, SPARE_OUT |-> \hBD, VOLUME_SET_IN |-> \hBE, VOLUME_SET_OUT |-> \hBF ]

\* ---- block commands (SBC-3) ----------------------------------------------
SBCOnly ==
  [ ATA_PASS_THROUGH_12 |-> \hA1, ATA_PASS_THROUGH_16 |-> \h85, COMPARE_AND_WRITE |-> \h89,
    FORMAT_UNIT |-> \h04, ORWRITE_16 |-> \h8B, PRE_FETCH_10 |-> \h34, PRE_FETCH_16 |-> \h90,
    READ_6 |-> \h08, READ_10 |-> \h28, READ_12 |-> \hA8, READ_16 |-> \h88,
    READ_CAPACITY_10 |-> \h25, READ_DEFECT_DATA_10 |-> \h37, READ_DEFECT_DATA_12 |-> \hB7,
    READ_LONG_10 |-> \h3E, READ_LONG_16 |-> \h9E, REASSIGN_BLOCKS |-> \h07,
    START_STOP_UNIT |-> \h1B, SYNCHRONIZE_CACHE_10 |-> \h35, SYNCHRONIZE_CACHE_16 |-> \h91,
    UNMAP |-> \h42, VERIFY_10 |-> \h2F, VERIFY_12 |-> \hAF, VERIFY_16 |-> \h8F,
    WRITE_6 |-> \h0A, WRITE_10 |-> \h2A, WRITE_12 |-> \hAA, WRITE_16 |-> \h8A,
    WRITE_AND_VERIFY_10 |-> \h2E, WRITE_AND_VERIFY_12 |-> \hAE, WRITE_AND_VERIFY_16 |-> \h8E,
    WRITE_LONG_10 |-> \h3F, WRITE_LONG_16 |-> \h9F, WRITE_SAME_10 |-> \h41, WRITE_SAME_16 |-> \h93,
    XDREAD_10 |-> \h52, XDWRITE_10 |-> \h50, XDWRITEREAD_10 |-> \h53, XPWRITE_10 |-> \h51 ]

\* ---- stream commands (SSC-4) ---------------------------------------------
SSCOnly ==
  [ ERASE_6 |-> \h19, ERASE_16 |-> \h93, FORMAT_MEDIUM |-> \h04, LOAD_UNLOAD |-> \h1B,
    LOCATE_10 |-> \h2B, LOCATE_16 |-> \h92, MOVE_MEDIUM_ATTACHED |-> \hA7,
    READ_6 |-> \h08, READ_16 |-> \h88, READ_BLOCK_LIMITS |-> \h05,
    READ_ELEMENT_STATUS_ATTACHED |-> \hB4, READ_POSITION |-> \h34,
    READ_REVERSE_6 |-> \h0F, READ_REVERSE_16 |-> \h81, RECOVER_BUFFERED_DATA |-> \h14,
    REPORT_DENSITY_SUPPORT |-> \h44, REWIND |-> \h01, SET_CAPACITY |-> \h0B,
    SPACE_6 |-> \h11, SPACE_16 |-> \h91, VERIFY_6 |-> \h13, VERIFY_16 |-> \h8F,
    WRITE_6 |-> \h0A, WRITE_16 |-> \h8A, WRITE_FILEMARKS_6 |-> \h10, WRITE_FILEMARKS_16 |-> \h80,
    REPORT_ALIAS |-> \hA3 ]

\* ---- media changer commands (SMC-3) ----------------------------------------
SMCOnly ==
  [ EXCHANGE_MEDIUM |-> \hA6, INITIALIZE_ELEMENT_STATUS |-> \h07,
    INITIALIZE_ELEMENT_STATUS_WITH_RANGE |-> \h37, MOVE_MEDIUM |-> \hA5,
    OPEN_CLOSE_IMPORT_EXPORT_ELEMENT |-> \h1B, POSITION_TO_ELEMENT |-> \h2B,
    READ_ELEMENT_STATUS |-> \hB8, REPORT_VOLUME_TYPES_SUPPORTED |-> \h44,
    REQUEST_VOLUME_ELEMENT_ADDRESS |-> \hB5, SEND_VOLUME_TAG |-> \hB6 ]

\* ---- multimedia commands (MMC-6) -------------------------------------------
MMCOnly ==
  [ BLANK |-> \hA1, CLOSE_TRACK_SESSION |-> \h5B, FORMAT_UNIT |-> \h04,
    GET_CONFIGURATION |-> \h46, GET_EVENT_STATUS_NOTIFICATION |-> \h4A, GET_PERFORMANCE |-> \hAC,
    LOAD_UNLOAD_MEDIUM |-> \hA6, MECHANISM_STATUS |-> \hBD,
    READ_10 |-> \h28, READ_12 |-> \hA8, READ_BUFFER_CAPACITY |-> \h5C, READ_CAPACITY |-> \h25,
    READ_CD |-> \hBE, READ_CD_MSF |-> \hB9, READ_DISC_INFORMATION |-> \h51,
    READ_DISC_STRUCTURE |-> \hAD, READ_FORMAT_CAPACITIES |-> \h23, READ_TOC_PMA_ATIP |-> \h43,
    READ_TRACK_INFORMATION |-> \h52, REPAIR_TRACK |-> \h58, REPORT_KEY |-> \hA4,
    RESERVE_TRACK |-> \h53, SEEK_10 |-> \h2B, SEND_CUE_SHEET |-> \h5D,
    SEND_DISC_STRUCTURE |-> \hBF, SEND_KEY |-> \hA3, SEND_OPC_INFORMATION |-> \h54,
    SET_CD_SPEED |-> \hBB, SET_READ_AHEAD |-> \hA7, SET_STREAMING |-> \hB6,
    START_STOP_UNIT |-> \h1B, SYNCHRONIZE_CACHE |-> \h35, VERIFY_10 |-> \h2F,
    WRITE_10 |-> \h2A, WRITE_12 |-> \hAA, WRITE_AND_VERIFY_10 |-> \h2E ]

\* record union, right operand wins on (never occurring, see Consistent) clashes
Merge(a, b) == [k \in DOMAIN a \cup DOMAIN b |-> IF k \in DOMAIN b THEN b[k] ELSE a[k]]

\* the opcode a command set assigns to a standard name
Op == [ spc |-> SPC,
        sbc |-> Merge(SPC, SBCOnly),
        ssc |-> Merge(SPC, SSCOnly),
        smc |-> Merge(SPC, SMCOnly),
        mmc |-> Merge(SPC, MMCOnly) ]

Sets == {"spc", "sbc", "ssc", "smc", "mmc"}

AllNames == UNION {DOMAIN Op[s] : s \in Sets}

\* names that denote the same command in every set that lists them
Known(name) == name \in AllNames
ValueOf(name) == LET s == CHOOSE s \in Sets : name \in DOMAIN Op[s] IN Op[s][name]

\* the library's generic per-set entries "<SET>_OPCODE_<HH>": the value is the suffix
Hex2(n) == LET d == <<"0","1","2","3","4","5","6","7","8","9","A","B","C","D","E","F">>
           IN d[(n \div 16) + 1] \o d[(n % 16) + 1]
GenericName(set, n) ==
    (CASE set = "spc" -> "SPC" [] set = "sbc" -> "SBC" [] set = "ssc" -> "SSC"
       [] set = "smc" -> "SMC" [] set = "mmc" -> "MMC") \o "_OPCODE_" \o Hex2(n)
GenericCodes == {\h7F, \h9E, \hA3, \hA4}

(* ---- service actions ---------------------------------------------------- *)

SA_PRIn  == [ READ_KEYS |-> 0, READ_RESERVATION |-> 1, REPORT_CAPABILITIES |-> 2, READ_FULL_STATUS |-> 3 ]
SA_PROut == [ REGISTER |-> 0, RESERVE |-> 1, RELEASE |-> 2, CLEAR |-> 3, PREEMPT |-> 4,
              PREEMPT_AND_ABORT |-> 5, REGISTER_AND_IGNORE_EXISTING_KEY |-> 6,
              REGISTER_AND_MOVE |-> 7, REPLACE_LOST_RESERVATION |-> 8 ]
\* SPC-4 MAINTENANCE IN (A3h) / MAINTENANCE OUT (A4h)
SA_MaintIn  == [ REPORT_IDENTIFYING_INFORMATION |-> \h05, REPORT_DEVICE_IDENTIFIER |-> \h05,
                 REPORT_TARGET_PORT_GROUPS |-> \h0A, REPORT_ALIASES |-> \h0B, REPORT_ALIAS |-> \h0B,
                 REPORT_SUPPORTED_OPERATION_CODES |-> \h0C,
                 REPORT_SUPPORTED_TASK_MANAGEMENT_FUNCTIONS |-> \h0D,
                 REPORT_PRIORITY |-> \h0E, REPORT_TIMESTAMP |-> \h0F, MANAGEMENT_PROTOCOL_IN |-> \h10 ]
SA_MaintOut == [ SET_IDENTIFYING_INFORMATION |-> \h06, SET_DEVICE_IDENTIFIER |-> \h06,
                 SET_TARGET_PORT_GROUPS |-> \h0A, CHANGE_ALIASES |-> \h0B,
                 SET_PRIORITY |-> \h0E, SET_TIMESTAMP |-> \h0F, MANAGEMENT_PROTOCOL_OUT |-> \h10 ]
\* SBC-3 SERVICE ACTION IN(16) 9Eh / OUT(16) 9Fh
SA_In16  == [ READ_CAPACITY_16 |-> \h10, READ_LONG_16 |-> \h11, GET_LBA_STATUS |-> \h12, REPORT_REFERRALS |-> \h13 ]
SA_Out16 == [ WRITE_LONG_16 |-> \h11 ]
\* SBC-3 variable length CDB 7Fh
SA_32    == [ XDREAD_32 |-> \h03, XDWRITE_32 |-> \h04, XPWRITE_32 |-> \h06, XDWRITEREAD_32 |-> \h07,
              READ_32 |-> \h09, VERIFY_32 |-> \h0A, WRITE_32 |-> \h0B, WRITE_AND_VERIFY_32 |-> \h0C,
              WRITE_SAME_32 |-> \h0D, ORWRITE_32 |-> \h0E ]
\* SCC-2 MAINTENANCE IN / OUT (storage array controllers)
SA_SccIn  == [ REPORT_ASSIGNED_UNASSIGNED_P_EXTENT |-> 0, REPORT_COMPONENT_DEVICE |-> 1,
               REPORT_COMPONENT_DEVICE_ATTACHMENTS |-> 2, REPORT_PERIPHERAL_DEVICE |-> 3,
               REPORT_PERIPHERAL_DEVICE_ASSOCIATIONS |-> 4,
               REPORT_PERIPHERAL_DEVICE_COMPONENT_DEVICE_IDENTIFIER |-> 5, REPORT_STATES |-> 6,
               REPORT_DEVICE_IDENTIFICATION |-> 7, REPORT_UNCONFIGURED_CAPACITY |-> 8,
               REPORT_SUPPORTED_CONFIGURATION_METHOD |-> 9 ]
SA_SccOut == [ ADD_PERIPHERAL_DEVICE_COMPONENT_DEVICE |-> 0, ATTACH_TO_COMPONENT_DEVICE |-> 1,
               EXCHANGE_P_EXTENT |-> 2, EXCHANGE_PERIPHERAL_DEVICE_COMPONENT_DEVICE |-> 3,
               INSTRUCT_COMPONENT_DEVICE |-> 4, REMOVE_PERIPHERAL_DEVICE_COMPONENT_DEVICE |-> 5,
               SET_PERIPHERAL_DEVICE_COMPONENT_DEVICE_IDENTIFIER |-> 6,
               BREAK_PERIPHERAL_DEVICE_COMPONENT_DEVICE |-> 7 ]
SA_Misc  == [ READ_MEDIA_SERIAL_NUMBER |-> 1,
              OPEN_IMPORTEXPORT_ELEMENT |-> 0, CLOSE_IMPORTEXPORT_ELEMENT |-> 1 ]   \* SMC-3 action codes

\* every service-action name this specification knows, with its value.  Names are
\* unique across the tables above except the pairs that are aliases of one value.
SATables == <<SA_PRIn, SA_PROut, SA_MaintIn, SA_MaintOut, SA_In16, SA_Out16, SA_32, SA_SccIn, SA_SccOut, SA_Misc>>
SAKnown(name) == \E i \in 1..Len(SATables) : name \in DOMAIN SATables[i]
SAValue(name) == LET i == CHOOSE i \in 1..Len(SATables) : name \in DOMAIN SATables[i] IN SATables[i][name]

\* the service actions the facade needs on a given operation code
RequiredSA(op) ==
    CASE op = \h5E -> SA_PRIn
      [] op = \h5F -> SA_PROut
      [] op = \h9E -> [ READ_CAPACITY_16 |-> \h10, GET_LBA_STATUS |-> \h12 ]
      [] op = \hA3 -> [ REPORT_TARGET_PORT_GROUPS |-> \h0A, REPORT_PRIORITY |-> \h0E ]
      [] OTHER -> [x \in {} |-> 0]

\* named operation codes whose name already denotes one service action
NamedSA(name) ==
    CASE name = "READ_LONG_16" -> [ READ_LONG_16 |-> \h11 ]
      [] name = "WRITE_LONG_16" -> [ WRITE_LONG_16 |-> \h11 ]
      [] name = "REPORT_ALIAS" -> [ REPORT_ALIAS |-> \h0B ]
      [] name = "READ_MEDIA_SERIAL_NUMBER" -> [ READ_MEDIA_SERIAL_NUMBER |-> \h01 ]
      [] name = "PERSISTENT_RESERVE_IN" -> SA_PRIn
      [] name = "PERSISTENT_RESERVE_OUT" -> [ REGISTER |-> 0, RESERVE |-> 1, RELEASE |-> 2, CLEAR |-> 3, PREEMPT |-> 4,
              PREEMPT_AND_ABORT |-> 5, REGISTER_AND_IGNORE_EXISTING_KEY |-> 6, REGISTER_AND_MOVE |-> 7 ]
      [] OTHER -> [x \in {} |-> 0]

(* ---- status codes (SAM-5) ------------------------------------------------ *)

Status == [ GOOD |-> \h00, CHECK_CONDITION |-> \h02, CONDITION_MET |-> \h04, CONDITIONS_MET |-> \h04,
            BUSY |-> \h08, RESERVATION_CONFLICT |-> \h18, TASK_SET_FULL |-> \h28,
            ACA_ACTIVE |-> \h30, TASK_ABORTED |-> \h40 ]

(* ---- CDB length by group code (SAM-5 / SPC-4 4.2) ------------------------ *)

Refused == 0
GroupLen(op) ==
    CASE op \in \h00..\h1F -> 6
      [] op \in \h20..\h5F -> 10
      [] op \in \h60..\h7F -> Refused      \* reserved group 3; 7Eh/7Fh variable length
      [] op \in \h80..\h9F -> 16
      [] op \in \hA0..\hBF -> 12
      [] op \in \hC0..\hFF -> Refused      \* vendor specific groups 6 and 7

(* ---- self-consistency of this transcription ------------------------------- *)

\* the same standard name never has two values across the five tables (the names
\* SSC shares with SBC - READ_6, READ_16, WRITE_6, WRITE_16, VERIFY_16 - and MMC's
\* shared names have equal codes in both standards)
Consistent == \A s, t \in Sets : \A n \in DOMAIN Op[s] \cap DOMAIN Op[t] : Op[s][n] = Op[t][n]
AllBytes   == \A s \in Sets : \A n \in DOMAIN Op[s] : Op[s][n] \in 0..255
SABytes    == \A i \in 1..Len(SATables) : \A n \in DOMAIN SATables[i] : SATables[i][n] \in 0..31
SAUnique   == \A i, j \in 1..Len(SATables) :
                 \A n \in DOMAIN SATables[i] \cap DOMAIN SATables[j] : SATables[i][n] = SATables[j][n]
GroupTotal == \A op \in 0..255 : GroupLen(op) \in {Refused, 6, 10, 12, 16}

=============================================================================
