----------------------------- MODULE MC_T10Cdb -----------------------------
(***************************************************************************)
(* Case enumerator and self-check of T10Cdb.tla.                            *)
(*                                                                          *)
(* For every command class the "star + flags" argument space is walked:     *)
(* backgrounds (all fields 0 / all fields max / max with a small coupled     *)
(* length) x every field x {0, max, every single bit, max minus every        *)
(* single bit}, plus every combination of the 1-bit flags over three         *)
(* backgrounds, plus the block-size-0 refusals and the ATA transfer modes.   *)
(* On every case TLC checks the transcription's own laws (a conformant       *)
(* target recovers the arguments, all other bits zero, dictionary-level      *)
(* decode/encode are inverse) and exports the case with the predicted         *)
(* bytes, buffer lengths and refusal, for replay into the constructors.       *)
(*                                                                          *)
(* TLC note: operator parameters are evaluated once, zero-arity definitions   *)
(* and function constructors are re-evaluated at every use; values that are   *)
(* used repeatedly are therefore passed as parameters and forced with Ev.     *)
(***************************************************************************)
EXTENDS T10Cdb, Json

CONSTANTS ClassSet,       \* which classes this run covers (cfg: a set of strings)
          Quick           \* TRUE: single-bit values only at byte boundaries of wide fields

VARIABLES cls, grp, arg, phase
vars == <<cls, grp, arg, phase>>

Ones(w) == NumFromBits(w, 0..(w - 1))
Bit(w, i) == NumFromBits(w, {i})
AllBut(w, i) == NumFromBits(w, (0..(w - 1)) \ {i})
A5(w) == NumFromBits(w, {i \in 0..(w - 1) : i % 8 \in {0, 2, 5, 7}})

Fields(c) == {Cmd[c].fields[i] : i \in 1..Len(Cmd[c].fields)}
MaxOf(S) == CHOOSE x \in S : \A y \in S : NatOfNum(y) <= NatOfNum(x)

BitIdx(w) == IF Quick /\ w > 8 THEN {i \in 0..(w - 1) : i % 8 \in {0, 7} \/ i = w - 1} ELSE 0..(w - 1)

FieldVals(c, f) ==
    IF CodeLimit(c, f.arg) # {} THEN CodeLimit(c, f.arg)
    ELSE {Z, Ones(f.w)} \cup {Bit(f.w, i) : i \in BitIdx(f.w)} \cup {AllBut(f.w, i) : i \in BitIdx(f.w)}

MaxVal(c, f) == IF CodeLimit(c, f.arg) # {} THEN MaxOf(CodeLimit(c, f.arg)) ELSE Ones(f.w)

\* arguments coupled to an allocation
Coupled(c) ==
    LET ph == Cmd[c].phase IN
    CASE ph.k \in {"in_alloc", "in_blocks", "out_data"} -> {ph.arg}
      [] ph.k = "ata" -> {"fetures", "count"}
      [] ph.k = "readcd" -> {"tl"}
      [] OTHER -> {}

NeedsBs(c) == Cmd[c].phase.k \in {"in_blocks", "out_data", "out_block"}

\* backgrounds: every field at 0 / at its maximum / at its maximum but coupled lengths = 2
Bg(c, kind) ==
  Ev([nm \in {f.arg : f \in Fields(c)} |->
        LET f == FieldOfKeyArg(c, nm) IN
        CASE kind = "zero" -> Z
          [] kind = "max"  -> MaxVal(c, f)
          [] kind = "maxc" -> IF nm \in Coupled(c) THEN <<2>> ELSE MaxVal(c, f)
          [] kind = "a5"   -> IF CodeLimit(c, nm) # {} THEN MaxVal(c, f)
                              ELSE IF nm \in Coupled(c) THEN <<3>> ELSE A5(f.w)])

\* block size that keeps the allocation small; <<2, 0>> = 512
WithBs(c, a) ==
    IF ~NeedsBs(c) THEN a
    ELSE LET t == IF Cmd[c].phase.k = "out_block" THEN <<1>> ELSE a[Cmd[c].phase.arg]
             bs == IF Len(Strip(t)) <= 1 /\ NatOfNum(t) <= 8 THEN <<2, 0>> ELSE <<1>> IN
         Ev([k \in DOMAIN a \cup {"blocksize"} |-> IF k = "blocksize" THEN bs ELSE a[k]])

\* the star of one field over one background
StarF(c, b, f) == {WithBs(c, [b EXCEPT ![f.arg] = v]) : v \in FieldVals(c, f)}
StarG(c, f) == StarF(c, Bg(c, "zero"), f) \cup StarF(c, Bg(c, "max"), f) \cup StarF(c, Bg(c, "maxc"), f)

Flags(c) == {f \in Fields(c) : f.w = 1}
FlagB(c, b, names) ==
    {WithBs(c, Ev([nm \in DOMAIN b |-> IF nm \in names THEN (IF nm \in S THEN <<1>> ELSE Z) ELSE b[nm]])) :
        S \in SUBSET names}
FlagN(c, names) ==
    IF names = {} THEN {}
    ELSE FlagB(c, Bg(c, "zero"), names) \cup FlagB(c, Bg(c, "maxc"), names) \cup FlagB(c, Bg(c, "a5"), names)
FlagCombos(c) == FlagN(c, {f.arg : f \in Flags(c)})

\* refusals: the same stars without a block size
NoBs(a) == Ev([k \in DOMAIN a |-> IF k = "blocksize" THEN Z ELSE a[k]])
RefusalOf(S) == {NoBs(a) : a \in S}
WithRefusals(c, S) == IF NeedsBs(c) THEN S \cup RefusalOf(S) ELSE S

\* ATA PASS-THROUGH transfer modes (SAT-3 12.2.2.2)
AtaB(b) ==
    {Ev([k \in DOMAIN b \cup {"blocksize", "extra_tl"} |->
             CASE k = "t_length" -> N(tl) [] k = "byte_block" -> N(bb) [] k = "t_type" -> N(tt)
               [] k = "t_dir" -> N(td) [] k = "fetures" -> N(n) [] k = "count" -> N(n + 1)
               [] k = "extra_tl" -> N(n + 2) [] k = "blocksize" -> N(bs)
               [] k = "command" -> <<236>> [] OTHER -> b[k]]) :
            tl \in 0..3, bb \in 0..1, tt \in 0..1, td \in 0..1, n \in {0, 1, 3}, bs \in {0, 4}}
AtaModes(c) == IF Cmd[c].phase.k # "ata" THEN {} ELSE AtaB(Bg(c, "zero"))

\* groups of cases: one per field, plus the flag combinations and the ATA modes
Groups(c) == {f.arg : f \in Fields(c)}
             \cup (IF Flags(c) = {} THEN {} ELSE {"#flags"})
             \cup (IF Cmd[c].phase.k = "ata" THEN {"#ata"} ELSE {})
             \cup (IF Fields(c) = {} THEN {"#none"} ELSE {})
GroupCases(c, g) ==
    CASE g = "#flags" -> FlagCombos(c)
      [] g = "#ata"   -> AtaModes(c)
      [] g = "#none"  -> {Bg(c, "zero")}
      [] OTHER        -> WithRefusals(c, StarG(c, FieldOfKeyArg(c, g)))

Big == 262144
Ctorable(c, a) ==
    /\ Cmd[c].phase.k # "out_list"
    /\ \A nm \in Coupled(c) : Small(a[nm])
    /\ (Cmd[c].phase.k = "readcd" => NatClamp(a["tl"]) <= 64)
    /\ DinLen(c, a) < Big /\ DoutLen(c, a) < 65536

Init == /\ cls \in ClassSet
        /\ grp = ""
        /\ arg = [x \in {} |-> Z]
        /\ phase = "pick"

PickGroup == /\ phase = "pick"
             /\ grp' \in Groups(cls)
             /\ phase' = "group"
             /\ UNCHANGED <<cls, arg>>

Pick == /\ phase = "group"
        /\ \E a \in GroupCases(cls, grp) : arg' = a
        /\ phase' = "case"
        /\ UNCHANGED <<cls, grp>>

ExportP(cdb, ok, rf) ==
    PrintT(<<"CASE", ToJson([cls |-> cls, a |-> arg, sets |-> Cmd[cls].sets,
                             ctor |-> ok, refuse |-> rf, cdb |-> cdb, dict |-> DictDecode(cls, cdb),
                             opv |-> Cmd[cls].opv, sa |-> Cmd[cls].sa,
                             dinlen |-> IF ok /\ rf = "" THEN DinLen(cls, arg) ELSE 0,
                             doutlen |-> IF ok /\ rf = "" THEN DoutLen(cls, arg) ELSE 0,
                             ph |-> Cmd[cls].phase.k, coupled |-> Coupled(cls)])>>)
ExportQ(cdb, ok) == ExportP(cdb, ok, IF ok THEN Refusal(cls, arg) ELSE "")

Export == /\ phase = "case"
          /\ ExportQ(EncodeCdb(cls, arg), Ctorable(cls, arg))
          /\ phase' = "done"
          /\ UNCHANGED <<cls, grp, arg>>

Next == PickGroup \/ Pick \/ Export
Spec == Init /\ [][Next]_vars

(* ---- laws of the transcription ------------------------------------------- *)

\* a standards-conformant target decoding the CDB recovers the caller's arguments
RecoversP(t) == \A nm \in DOMAIN t : NumEq(t[nm], arg[nm])

\* right operation code and service action, right length
HeaderP(cdb, L) ==
    /\ Len(cdb) = GroupLen(L.opv)
    /\ cdb[1] = L.opv
    /\ (L.sa # NoSA => NatOfNum(Get(cdb, SASeg)) = L.sa[1])

\* every bit outside the fields is zero
ZeroP(cdb, covered, n) == \A p \in 0..(8 * n - 1) : p \notin covered => LinBit(cdb, p) = 0
CoveredP(sg) == UNION {FieldPos(sg[i]) : i \in 1..Len(sg)}

\* dictionary level: decode is inverse to encode (C02)
DictP(cdb, dct, L) ==
    DictEncode(cls, Ev([k \in DOMAIN dct \cup {"opcode"} \cup (IF L.sa # NoSA THEN {"service_action"} ELSE {}) |->
                    IF k = "opcode" THEN N(L.opv)
                    ELSE IF k = "service_action" /\ k \notin DOMAIN dct THEN N(L.sa[1])
                    ELSE dct[k]])) = cdb
DictQ(cdb, L) == DictP(cdb, DictDecode(cls, cdb), L)

AllP(cdb, L) ==
    /\ RecoversP(TargetDecode(cls, cdb))
    /\ HeaderP(cdb, L)
    /\ ZeroP(cdb, CoveredP(AllSegs(cls)), L.len)
    /\ DictQ(cdb, L)

\* TargetRecovers /\ HeaderAndLength /\ OtherBitsZero /\ DictRoundTrip on every case
CaseLaws == phase = "case" => AllP(EncodeCdb(cls, arg), Cmd[cls])

Layouts == phase = "pick" =>
              WellFormedLayout(cls) /\ LenMatchesGroup(cls) /\ OpcodeIsT10(cls) /\ SetsOffer(cls)
=============================================================================
