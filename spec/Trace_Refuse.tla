---------------------------- MODULE Trace_Refuse ----------------------------
(* recorded requests {k, v, exc, execs, obj} judged against Refuse.Verdict *)
EXTENDS RefuseRules, Json, IOUtils, TLC
Trace == JsonDeserialize(IOEnv.TRACE_FILE)
VARIABLE l
Judge(e) ==
    LET want == Verdict([k |-> e.k, v |-> e.v]) IN
    IF want # "" THEN
        (IF (want = "either" /\ e.exc \notin {"ValueError", "NotImplementedError"}) \/ (want # "either" /\ e.exc # want)
           THEN {<<"RefusedBeforeSend", want>>} ELSE {})
        \cup (IF e.execs # 0 THEN {<<"RefusedBeforeSend", "command reached the device">>} ELSE {})
        \cup (IF e.obj THEN {<<"RefusedLeavesNothing", "command object returned">>} ELSE {})
    ELSE (IF e.exc # "" THEN {<<"ValidRequestAccepted", e.exc>>} ELSE {})
         \cup (IF e.k \in {"prin_sa", "facade_bs0", "facade_bs_reset"} /\ e.exc = "" /\ e.execs # 1 THEN {<<"ExactlyOnce", ToString(e.execs)>>} ELSE {})
TInit == l = 1
Step == /\ l <= Len(Trace)
        /\ \A v \in Judge(Trace[l]) : PrintT(<<"VERDICT", ToJson([i |-> l, clause |-> v[1], detail |-> v[2]])>>)
        /\ l' = l + 1
Finish == l = Len(Trace) + 1 /\ PrintT(<<"CONSUMED", ToJson([n |-> l - 1])>>) /\ UNCHANGED l
TSpec == TInit /\ [][Step \/ Finish]_l
=============================================================================
