SPECIFICATION Spec
CONSTANTS
  MaxLen = 25
  Tr = "sgio"
INVARIANT TypeOK
INVARIANT UnchangeableKept
PROPERTY ProtectedMediumKept
PROPERTY RejectedChangesNothing
PROPERTY SavedOnlyBySp
CHECK_DEADLOCK FALSE
