SPECIFICATION Spec
INVARIANT NoStaleSend
INVARIANT VanishedIsError
INVARIANT OneHandle
INVARIANT Released
INVARIANT FreshAfterExec
INVARIANT DetectionOffKeepsHandle
INVARIANT ReopenedEvenIfCloseFails
CHECK_DEADLOCK FALSE
