SPECIFICATION Spec
INVARIANT NoStaleSend
INVARIANT VanishedIsError
INVARIANT OneHandle
INVARIANT Released
INVARIANT FreshAfterExec
INVARIANT DetectionOffKeepsHandle
INVARIANT ReopenedEvenIfCloseFails
INVARIANT ReopenedAsRequested
INVARIANT NothingWithoutHandle
CHECK_DEADLOCK FALSE
