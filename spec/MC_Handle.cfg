SPECIFICATION Spec
INVARIANT NoStaleSend
INVARIANT VanishedIsError
INVARIANT OneHandle
INVARIANT Released
INVARIANT FreshAfterExec
INVARIANT DetectionOffKeepsHandle
INVARIANT ReopenedEvenIfCloseFails
INVARIANT ReopenedAsRequested
CHECK_DEADLOCK FALSE
