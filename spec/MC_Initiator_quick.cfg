SPECIFICATION Spec
CONSTANTS
  MaxLen = 3
  Detect = TRUE
  Tr = "sgio"
INVARIANT SameMedium
INVARIANT FreshAfterSuccess
CHECK_DEADLOCK FALSE
