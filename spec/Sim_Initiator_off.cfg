SPECIFICATION Spec
CONSTANTS
  MaxLen = 24
  Detect = FALSE
INVARIANT SameMedium
CHECK_DEADLOCK FALSE
