----------------------------- MODULE Trace_Sense -----------------------------
(***************************************************************************)
(* One event per sense buffer handed to SCSICheckCondition and to a device's  *)
(* CheckCondition class:                                                      *)
(*   bytes; built / strok / printok (constructing, str(), print_data() did    *)
(*   not raise); rc, valid, key, asc, ascq as the object reports them (-1 =   *)
(*   not reported); text = str(exc) normalised.                               *)
(***************************************************************************)
EXTENDS T10Sense, Json, IOUtils
Trace == JsonDeserialize(IOEnv.TRACE_FILE)
VARIABLE l

\* does haystack contain needle (both normalised strings, given as sequences of character codes)
Contains(h, n) == \E i \in 0..(Len(h) - Len(n)) : SubSeq(h, i + 1, i + Len(n)) = n

Judge(e) ==
    LET b == e.bytes
        fmt == Format(RespCode(b))
        code == Asc(b) * 256 + Ascq(b) IN
    (IF ~e.built THEN {<<"Constructible", "">>} ELSE {})
    \cup (IF e.built /\ ~e.strok THEN {<<"Printable", "str">>} ELSE {})
    \cup (IF e.built /\ ~e.printok THEN {<<"Printable", "print_data">>} ELSE {})
    \cup (IF e.built /\ e.rc # RespCode(b) THEN {<<"ResponseCode", ToString(RespCode(b))>>} ELSE {})
    \cup (IF e.built /\ (e.valid # 0) # (ValidBit(b) # 0) THEN {<<"ValidBit", ToString(ValidBit(b))>>} ELSE {})
    \cup (IF e.built /\ fmt # "unknown" /\ e.key # SenseKey(b) THEN {<<"SenseKeyPosition", ToString(SenseKey(b))>>} ELSE {})
    \cup (IF e.built /\ fmt # "unknown" /\ (e.asc # Asc(b) \/ e.ascq # Ascq(b))
          THEN {<<"AscAscqPosition", ToString(code)>>} ELSE {})
    \cup (IF e.built /\ e.strok /\ fmt # "unknown" /\ Curated(code) /\ ~VendorSpecific(Asc(b), Ascq(b))
             /\ ~e.has_text
          THEN {<<"T10Text", TextOf(code)>>} ELSE {})
    \cup (IF e.built /\ e.strok /\ fmt # "unknown" /\ KeyNames[SenseKey(b) + 1] # "" /\ ~e.has_key
          THEN {<<"SenseKeyName", KeyNames[SenseKey(b) + 1]>>} ELSE {})

TInit == l = 1
Step == /\ l <= Len(Trace)
        /\ \A v \in Judge(Trace[l]) : PrintT(<<"VERDICT", ToJson([i |-> l, clause |-> v[1], detail |-> v[2]])>>)
        /\ l' = l + 1
Finish == l = Len(Trace) + 1 /\ PrintT(<<"CONSUMED", ToJson([n |-> l - 1])>>) /\ UNCHANGED l
TSpec == TInit /\ [][Step \/ Finish]_l
=============================================================================
