SPECIFICATION Spec
CONSTANTS
  Devs = {"d1", "d2", "d3"}
  Types = {0, 1, 3, 5, 8, 13, 31}
INVARIANT TypeSelectsSet
INVARIANT UnnamedKeepsOwn
PROPERTY NoLeakAcrossAttach
CHECK_DEADLOCK FALSE
