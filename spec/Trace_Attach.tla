------------------------------ MODULE Trace_Attach ------------------------------
(***************************************************************************)
(* events: [ev |-> "reset"]  new facade and new devices                       *)
(*         [ev |-> "attach", dev, type, qual, tr, cdbs (CDBs the target saw    *)
(*          during this attach), set (name of the table the device carries     *)
(*          afterwards, by identity), primary (INQUIRY / TEST UNIT READY /      *)
(*          REPORT LUNS resolvable with their T10 codes), devtype, others       *)
(*          (dev -> set name of every other device)]                            *)
(*         [ev |-> "probe", set, code ("9E" | "A3"), sent (first CDB byte of every  *)
(*          command the target saw while the facade was asked for a command it      *)
(*          finds by operation code)]: exactly what the set of the device attached    *)
(*          now offers, whatever was attached before                                   *)
(* state: what every device carried before (sel), what a type selected the      *)
(* first time (first): a later attach of the same type must select the same.    *)
(***************************************************************************)
EXTENDS AttachRules, Json, IOUtils
Trace == JsonDeserialize(IOEnv.TRACE_FILE)
VARIABLES l, sel, first

JudgeProbe(e) ==
    IF e.sent = ProbeExpected(e.set, e.code) THEN {}
    ELSE {<<"NoLeakAcrossAttach", "probe " \o e.code \o " on " \o e.set>>}
\* the INQUIRY of this attach did not complete with GOOD (fault = the status the target gave): the attach fails
\* with an error and selects nothing - the device keeps the set it had (a new device object: the primary set)
JudgeFailed(e) ==
    (IF e.exc = "" THEN {<<"FailedAttachSelectsNothing", "attach returned although its INQUIRY failed">>} ELSE {})
    \cup (IF e.set # (IF e.dev \in DOMAIN sel THEN sel[e.dev] ELSE "spc")
          THEN {<<"FailedAttachSelectsNothing", IF e.dev \in DOMAIN sel THEN sel[e.dev] ELSE "spc">>} ELSE {})
Judge(e) ==
  IF e.fault # 0 THEN JudgeFailed(e) ELSE
    (IF Len(e.cdbs) # 1 THEN {<<"OneInquiryPerAttach", ToString(Len(e.cdbs))>>}
     ELSE IF ~IsStdInquiry(e.cdbs[1]) THEN {<<"OneInquiryPerAttach", "not a standard INQUIRY">>} ELSE {})
    \cup (IF Named(e.type) # "" /\ e.set # Named(e.type) THEN {<<"TypeSelectsSet", Named(e.type)>>} ELSE {})
    \cup (IF ~e.primary THEN {<<"PrimaryAlwaysOffered", e.set>>} ELSE {})
    \cup (IF e.devtype # e.type THEN {<<"DeviceTypeRecorded", ToString(e.type)>>} ELSE {})
    \cup (IF Named(e.type) = "" /\ e.type \in DOMAIN first /\ first[e.type] # e.set
          THEN {<<"NoLeakAcrossAttach", first[e.type]>>} ELSE {})
    \cup (IF \E d \in DOMAIN e.others : d \in DOMAIN sel /\ sel[d] # e.others[d]
          THEN {<<"NoLeakAcrossAttach", "another device's set changed">>} ELSE {})

TInit == l = 1 /\ sel = [x \in {} |-> ""] /\ first = [x \in {} |-> ""]
Step == /\ l <= Len(Trace)
        /\ LET e == Trace[l] IN
           IF e.ev = "reset" THEN sel' = [x \in {} |-> ""] /\ UNCHANGED first
           ELSE IF e.ev = "probe" THEN
                /\ \A v \in JudgeProbe(e) : PrintT(<<"VERDICT", ToJson([i |-> l, clause |-> v[1], detail |-> v[2]])>>)
                /\ UNCHANGED <<sel, first>>
           ELSE /\ \A v \in Judge(e) : PrintT(<<"VERDICT", ToJson([i |-> l, clause |-> v[1], detail |-> v[2]])>>)
                /\ sel' = [d \in DOMAIN sel \cup {e.dev} |-> IF d = e.dev THEN e.set ELSE sel[d]]
                /\ first' = IF e.fresh /\ e.type \notin DOMAIN first
                            THEN [t \in DOMAIN first \cup {e.type} |-> IF t = e.type THEN e.set ELSE first[t]]
                            ELSE first
        /\ l' = l + 1
Finish == l = Len(Trace) + 1 /\ PrintT(<<"CONSUMED", ToJson([n |-> l - 1])>>) /\ UNCHANGED <<l, sel, first>>
TSpec == TInit /\ [][Step \/ Finish]_<<l, sel, first>>
=============================================================================
