---------------------------- MODULE Reservations ----------------------------
(***************************************************************************)
(* PERSISTENT RESERVATIONS (SPC-4 5.7) on one logical unit shared by TWO      *)
(* initiators, each with its own device object and facade: registering,        *)
(* reserving, releasing, clearing and preempting through                        *)
(* facade.persistentreserveout, reading keys / the reservation / the full        *)
(* status / the capabilities through facade.persistentreservein, and block        *)
(* reads and writes that the reservation lets through or answers with              *)
(* RESERVATION CONFLICT (status 18h, which surfaces as the error named after it     *)
(* over iSCSI and as the binding's unspecified error over SG_IO).                    *)
(*                                                                          *)
(* Types modelled: 1 Write Exclusive, 3 Exclusive Access, 5 Write Exclusive -        *)
(* Registrants Only, 6 Exclusive Access - Registrants Only (one holder each).         *)
(* Keys are small numbers here; the replay maps them to 64-bit values whose            *)
(* eight bytes all differ.                                                              *)
(*                                                                          *)
(* Every step has ONE expected outcome: commands that reach the target (one),            *)
(* GOOD / RESERVATION CONFLICT / CHECK CONDITION with the sense the target sent,          *)
(* what the caller reads in the decoded PERSISTENT RESERVE IN data, and the state          *)
(* the target is in afterwards (reached only if it recovered service action,               *)
(* scope, type and both keys from the CDB and the parameter list).  Behaviours are          *)
(* exported and replayed on two real facades over both transports against a target           *)
(* written from SPC-4 alone.                                                                  *)
(***************************************************************************)
EXTENDS Naturals, Sequences, FiniteSets, TLC, Json

CONSTANTS MaxLen, Tr

Ini == {1, 2}
Keys == {1, 2}
Types == {1, 3, 5, 6}

VARIABLES reg,      \* initiator -> registered key (0 = not registered)
          holder,   \* initiator holding the reservation (0 = none)
          rtype,    \* its type (0 = none)
          gen,      \* PRgeneration
          disk,     \* the one block of the medium
          hist, exported
vars == <<reg, holder, rtype, gen, disk, hist, exported>>

Init == /\ reg = [i \in Ini |-> 0] /\ holder = 0 /\ rtype = 0 /\ gen = 0 /\ disk = 0
        /\ hist = <<>> /\ exported = FALSE
Room == Len(hist) < MaxLen /\ ~exported

ConflictOut == IF Tr = "sgio" THEN "UnspecifiedError" ELSE "ReservationConflict"
StateNow(r, h, t, g, d) == [reg |-> [i \in 1..2 |-> r[i]], holder |-> h, rtype |-> t, gen |-> g, disk |-> d]
Same == StateNow(reg, holder, rtype, gen, disk)
Rec(i, act, args, out, d1, d2, view, st) ==
    [i |-> i, act |-> act, args |-> args, out |-> out, sent |-> 1, d1 |-> d1, d2 |-> d2, view |-> view, st |-> st]
Unchanged == UNCHANGED <<reg, holder, rtype, gen, disk, exported>>
Conflict(i, act, args) == hist' = Append(hist, Rec(i, act, args, ConflictOut, 0, 0, <<>>, Same)) /\ Unchanged
\* CHECK CONDITION, ILLEGAL REQUEST (5h) with the additional sense code given
Illegal(i, act, args, asc, ascq) ==
    hist' = Append(hist, Rec(i, act, args, "CheckCondition", 5, asc * 256 + ascq, <<>>, Same)) /\ Unchanged
\* GOOD with the new state
Good(i, act, args, r, h, t, g) ==
    /\ reg' = r /\ holder' = h /\ rtype' = t /\ gen' = g
    /\ hist' = Append(hist, Rec(i, act, args, "ok", 0, 0, <<>>, StateNow(r, h, t, g, disk)))
    /\ UNCHANGED <<disk, exported>>
\* registration of i removed (its reservation, if it holds one, is released)
Without(J) == [j \in Ini |-> IF j \in J THEN 0 ELSE reg[j]]

\* ---- PERSISTENT RESERVE OUT -------------------------------------------------------------------------------
\* REGISTER: k = the key the nexus is registered with (0 if it is not), sk = the new key (0 = unregister)
Register(i, k, sk) ==
    /\ Room
    /\ LET args == <<k, sk>> IN
       IF k # reg[i] THEN Conflict(i, "register", args)
       ELSE IF reg[i] = 0 /\ sk = 0 THEN Good(i, "register", args, reg, holder, rtype, gen)
       ELSE IF sk = 0 THEN Good(i, "register", args, Without({i}), IF holder = i THEN 0 ELSE holder,
                                IF holder = i THEN 0 ELSE rtype, gen + 1)
       ELSE Good(i, "register", args, [reg EXCEPT ![i] = sk], holder, rtype, gen + 1)
\* REGISTER AND IGNORE EXISTING KEY: the same without the check of k
RegisterIgnore(i, k, sk) ==
    /\ Room
    /\ LET args == <<k, sk>> IN
       IF reg[i] = 0 /\ sk = 0 THEN Good(i, "regignore", args, reg, holder, rtype, gen)
       ELSE IF sk = 0 THEN Good(i, "regignore", args, Without({i}), IF holder = i THEN 0 ELSE holder,
                                IF holder = i THEN 0 ELSE rtype, gen + 1)
       ELSE Good(i, "regignore", args, [reg EXCEPT ![i] = sk], holder, rtype, gen + 1)
Registered(i, k) == reg[i] # 0 /\ k = reg[i]
\* RESERVE: only a registered nexus, with its key; a second reservation is a conflict unless it repeats the holder's own
Reserve(i, k, t) ==
    /\ Room
    /\ LET args == <<k, t>> IN
       IF ~Registered(i, k) THEN Conflict(i, "reserve", args)
       ELSE IF holder = 0 THEN Good(i, "reserve", args, reg, i, t, gen)
       ELSE IF holder = i /\ rtype = t THEN Good(i, "reserve", args, reg, holder, rtype, gen)
       ELSE Conflict(i, "reserve", args)
\* RELEASE: by the holder with the type held; by anybody else registered it does nothing; with another type it is
\* 26h/04h INVALID RELEASE OF PERSISTENT RESERVATION
Release(i, k, t) ==
    /\ Room
    /\ LET args == <<k, t>> IN
       IF ~Registered(i, k) THEN Conflict(i, "release", args)
       ELSE IF holder # i THEN Good(i, "release", args, reg, holder, rtype, gen)
       ELSE IF rtype = t THEN Good(i, "release", args, reg, 0, 0, gen)
       ELSE Illegal(i, "release", args, 38, 4)
Clear(i, k) ==
    /\ Room
    /\ IF ~Registered(i, k) THEN Conflict(i, "clear", <<k>>)
       ELSE Good(i, "clear", <<k>>, Without(Ini), 0, 0, gen + 1)
\* PREEMPT: sk names the registrations to remove (never the preempting nexus itself); if it is the holder's key the
\* reservation passes to the preempting nexus with the type given; a key nobody is registered with is a conflict;
\* key 0 is 26h/00h INVALID FIELD IN PARAMETER LIST
Preempt(i, k, sk, t) ==
    /\ Room
    /\ LET args == <<k, sk, t>>
           victims == {j \in Ini \ {i} : reg[j] = sk} IN
       IF ~Registered(i, k) THEN Conflict(i, "preempt", args)
       ELSE IF sk = 0 THEN Illegal(i, "preempt", args, 38, 0)
       ELSE IF holder # 0 /\ reg[holder] = sk THEN Good(i, "preempt", args, Without(victims), i, t, gen + 1)
       ELSE IF victims = {} THEN Conflict(i, "preempt", args)
       ELSE Good(i, "preempt", args, Without(victims), holder, rtype, gen + 1)

\* REGISTER AND MOVE: the holder registers the OTHER nexus (named by an iSCSI TransportID and a relative target port)
\* with key sk and hands the reservation over to it; with UNREG = 1 it also gives up its own registration.  From a
\* nexus that does not hold the reservation it is a conflict; key 0 or a move to oneself is 26h/00h
RegisterMove(i, k, sk, unreg, j) ==
    /\ Room
    /\ LET args == <<k, sk, unreg, j>> IN
       IF ~Registered(i, k) THEN Conflict(i, "regmove", args)
       ELSE IF holder # i THEN Conflict(i, "regmove", args)
       ELSE IF sk = 0 \/ j = i THEN Illegal(i, "regmove", args, 38, 0)
       ELSE Good(i, "regmove", args, [n \in Ini |-> IF n = j THEN sk ELSE IF n = i /\ unreg = 1 THEN 0 ELSE reg[n]],
                 j, rtype, gen + 1)

\* ---- PERSISTENT RESERVE IN (never conflicts) ---------------------------------------------------------------------
Regs == SelectSeq(<<1, 2>>, LAMBDA j : reg[j] # 0)
ReadKeys(i) ==
    /\ Room
    /\ hist' = Append(hist, Rec(i, "readkeys", <<>>, "ok", gen, Len(Regs), [n \in 1..Len(Regs) |-> reg[Regs[n]]], Same))
    /\ Unchanged
ReadReservation(i) ==
    /\ Room
    /\ hist' = Append(hist, Rec(i, "readres", <<>>, "ok", gen, IF holder = 0 THEN 0 ELSE 1,
                                IF holder = 0 THEN <<>> ELSE <<reg[holder], rtype>>, Same))
    /\ Unchanged
\* READ FULL STATUS: per registrant its key, whether it holds the reservation (then with the type), its iSCSI name
FullStatus(i) ==
    /\ Room
    /\ hist' = Append(hist, Rec(i, "fullstatus", <<>>, "ok", gen, Len(Regs),
                                [n \in 1..Len(Regs) |-> [key |-> reg[Regs[n]], h |-> IF holder = Regs[n] THEN 1 ELSE 0,
                                                         t |-> IF holder = Regs[n] THEN rtype ELSE 0, ini |-> Regs[n]]], Same))
    /\ Unchanged
\* REPORT CAPABILITIES: what this target supports (constant): CRH, type mask valid, the four one-holder types
Capabilities(i) ==
    /\ Room
    /\ hist' = Append(hist, Rec(i, "caps", <<>>, "ok", 0, 0,
                                [crh |-> 1, sip_c |-> 0, atp_c |-> 0, ptpl_c |-> 0, tmv |-> 1, ptpl_a |-> 0, allow |-> 0,
                                 wr_ex |-> 1, ex_ac |-> 1, wr_ex_ro |-> 1, ex_ac_ro |-> 1, wr_ex_ar |-> 0, ex_ac_ar |-> 0], Same))
    /\ Unchanged

\* ---- block access under the reservation (SPC-4 table 66) --------------------------------------------------------------
WriteAllowed(i) == holder = 0 \/ holder = i \/ (rtype \in {5, 6} /\ reg[i] # 0)
ReadAllowed(i) == holder = 0 \/ holder = i \/ rtype \in {1, 5} \/ (rtype = 6 /\ reg[i] # 0)
Write(i, v) ==
    /\ Room
    /\ IF ~WriteAllowed(i) THEN Conflict(i, "write", <<v>>)
       ELSE /\ disk' = v
            /\ hist' = Append(hist, Rec(i, "write", <<v>>, "ok", 0, 0, <<>>, StateNow(reg, holder, rtype, gen, v)))
            /\ UNCHANGED <<reg, holder, rtype, gen, exported>>
Read(i) ==
    /\ Room
    /\ IF ~ReadAllowed(i) THEN Conflict(i, "read", <<>>)
       ELSE hist' = Append(hist, Rec(i, "read", <<>>, "ok", disk, 0, <<>>, Same)) /\ Unchanged
Export == /\ Len(hist) = MaxLen /\ ~exported
          /\ PrintT(<<"RESERVATIONS", ToJson([tr |-> Tr, steps |-> hist])>>)
          /\ exported' = TRUE /\ UNCHANGED <<reg, holder, rtype, gen, disk, hist>>

K0 == Keys \cup {0}
Next == \/ \E i \in Ini, k \in K0, sk \in K0 : Register(i, k, sk) \/ RegisterIgnore(i, k, sk)
        \/ \E i \in Ini, k \in K0, t \in Types : Reserve(i, k, t) \/ Release(i, k, t)
        \/ \E i \in Ini, k \in K0 : Clear(i, k)
        \/ \E i \in Ini, k \in K0, sk \in K0, t \in Types : Preempt(i, k, sk, t)
        \/ \E i \in Ini, k \in K0, sk \in K0, u \in {0, 1}, j \in Ini : RegisterMove(i, k, sk, u, j)
        \/ \E i \in Ini : ReadKeys(i) \/ ReadReservation(i) \/ FullStatus(i) \/ Capabilities(i) \/ Read(i)
        \/ \E i \in Ini, v \in {1, 2} : Write(i, v)
        \/ Export
Spec == Init /\ [][Next]_vars
\* a narrower caller (each nexus uses its own key i, quotes the key it is registered with, two types) so that TLC can
\* enumerate every behaviour of three and four steps
NextSmall == \/ \E i \in Ini : \E sk \in {0, i} : Register(i, reg[i], sk)
             \/ \E i \in Ini, t \in {1, 6} : Reserve(i, reg[i], t) \/ Release(i, reg[i], t) \/ Preempt(i, reg[i], 3 - i, t)
             \/ \E i \in Ini : Clear(i, reg[i]) \/ Read(i) \/ Write(i, i) \/ RegisterMove(i, reg[i], 3 - i, 1, 3 - i)
             \/ ReadKeys(1) \/ ReadReservation(2) \/ FullStatus(1)
             \/ Export
SpecSmall == Init /\ [][NextSmall]_vars

\* ---- what the design guarantees (checked by TLC on the model itself) ----------------------------------------------------
TypeOK == reg \in [Ini -> K0] /\ holder \in Ini \cup {0} /\ rtype \in Types \cup {0} /\ disk \in 0..2
\* at most one holder, and it is registered; there is a type exactly while there is a holder
HolderRegistered == (holder # 0 => reg[holder] # 0) /\ (holder = 0 <=> rtype = 0)
\* a command answered with RESERVATION CONFLICT or CHECK CONDITION changed nothing
RefusedChangesNothing == [][(hist' # hist /\ hist'[Len(hist')].out # "ok") => UNCHANGED <<reg, holder, rtype, gen, disk>>]_vars
\* the medium only changes through a write that the reservation allowed
ExclusiveWrite == [][disk' # disk => \E j \in Ini : hist'[Len(hist')].i = j /\ hist'[Len(hist')].act = "write" /\ WriteAllowed(j)]_vars
\* under an exclusive-access reservation nobody but the holder (type 3) / the registrants (type 6) reads data
ExclusiveRead == \A n \in 1..Len(hist) :
    LET e == hist[n] IN
    (e.act = "read" /\ e.out = "ok" /\ e.st.holder \notin {0, e.i}) => (e.st.rtype \in {1, 5} \/ (e.st.rtype = 6 /\ e.st.reg[e.i] # 0))
GenMonotone == [][gen' >= gen]_vars
\* the reservation changes hands only by RESERVE on a free unit, by PREEMPT (to the nexus that asked), by REGISTER AND
\* MOVE (from the holder to the nexus it named), or is dropped
HolderChange == [][(holder' # holder /\ holder' # 0) =>
                       \/ hist'[Len(hist')].act \in {"reserve", "preempt"} /\ hist'[Len(hist')].i = holder'
                       \/ hist'[Len(hist')].act = "regmove" /\ hist'[Len(hist')].i = holder /\ hist'[Len(hist')].args[4] = holder']_vars
\* the state without its history: two states that differ only in hist / gen have the same successors (up to hist /
\* gen), so exploring one representative of each (TLC's VIEW) visits every reachable core state and every kind of
\* transition however long the history is - the invariants and action properties then hold for histories of any length
CoreView == <<reg, holder, rtype, disk>>
=============================================================================
