------------------------------ MODULE Command ------------------------------
(***************************************************************************)
(* C09 at the level of command objects: several objects of classes A, B, C  *)
(* are alive at once; constructing, probing (decode + re-encode with a       *)
(* class) and discarding happen in any order.  The specification's meaning    *)
(* of an object is a function of its own class and arguments only; the        *)
(* action property Isolation says that no action on one object changes        *)
(* another.  Every action sequence up to MaxLen is exported and instantiated  *)
(* by the harness with all ordered pairs / selected triples of real classes.  *)
(***************************************************************************)
EXTENDS Naturals, Sequences, FiniteSets, TLC, Json

CONSTANTS Roles, Slots, MaxLen

VARIABLES objs, hist
vars == <<objs, hist>>

None == "none"
Init == objs = [sl \in Slots |-> None] /\ hist = <<>>

Construct(sl, r) == /\ objs[sl] = None /\ Len(hist) < MaxLen
                    /\ objs' = [objs EXCEPT ![sl] = r]
                    /\ hist' = Append(hist, <<"construct", sl, r>>)
\* decode the reference CDB of role r with r's class and re-encode it (no object involved)
Probe(r) == /\ Len(hist) < MaxLen /\ Len(hist) > 0
            /\ hist[Len(hist)][1] # "probe"            \* two probes in a row add nothing
            /\ hist' = Append(hist, <<"probe", "", r>>) /\ UNCHANGED objs
\* use an object the way a transport does: its buffers are filled / grown in place
Use(sl) == /\ objs[sl] # None /\ Len(hist) < MaxLen
           /\ hist[Len(hist)][1] # "use"
           /\ hist' = Append(hist, <<"use", sl, objs[sl]>>) /\ UNCHANGED objs
Discard(sl) == /\ objs[sl] # None /\ Len(hist) < MaxLen
               /\ objs' = [objs EXCEPT ![sl] = None]
               /\ hist' = Append(hist, <<"discard", sl, objs[sl]>>)

Next == \/ \E sl \in Slots, r \in Roles : Construct(sl, r)
        \/ \E r \in Roles : Probe(r)
        \/ \E sl \in Slots : Discard(sl) \/ Use(sl)
Spec == Init /\ [][Next]_vars

\* no action changes an object it does not name
Isolation == [][\A sl \in Slots : (objs[sl] # None /\ objs'[sl] # None) => objs'[sl] = objs[sl]]_vars

\* export complete sequences (those that end with a probe or have full length): the harness
\* re-observes every live object after every step anyway
Export == /\ Len(hist) >= 2
          /\ (Len(hist) = MaxLen \/ hist[Len(hist)][1] = "probe")
          /\ PrintT(<<"SEQ", ToJson(hist)>>)
          /\ UNCHANGED vars
MCNext == Next \/ Export
MCSpec == Init /\ [][MCNext]_vars
=============================================================================
