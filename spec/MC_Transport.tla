---------------------------- MODULE MC_Transport ----------------------------
EXTENDS Transport, Json
\* one case per (transport, what the object carried before, completion): everything a
\* replay needs to set the history up and compare
ExportAll == /\ phase = "idle" /\ cur = NoCur
             /\ \A prev \in SenseIds, st \in 0..255, s \in SenseIds, raw \in BOOLEAN :
                   (st = CHECK_CONDITION \/ s = "none") =>
                   PrintT(<<"CASE", ToJson([tr |-> tr, prev |-> prev, st |-> st, s |-> s, raw |-> raw,
                                            allowed |-> Allowed(tr, st, s, raw)])>>)
             /\ UNCHANGED vars
MCNext == Next \/ ExportAll
MCSpec == Init /\ [][MCNext]_vars
=============================================================================
