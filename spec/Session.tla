------------------------------- MODULE Session -------------------------------
(***************************************************************************)
(* The caller's view of ONE facade over its lifetime: it is attached to a     *)
(* device, issues commands through facade methods, keeps some of the command   *)
(* objects it got back and issues them again later, edits results it holds,    *)
(* runs an ATA pass-through (the one method that asks for raw sense), and is    *)
(* re-attached after the device behind it changed its type.  The target can     *)
(* change capacity, identity and type, and can be told to fail the next         *)
(* command.  Whatever happened before, every step has ONE expected outcome:      *)
(* how many commands reach the target, what the caller gets (value or error).    *)
(*                                                                          *)
(* This is the composition in which state carried from one call to the next      *)
(* (in the facade, a command object, a class or a module) becomes visible; the    *)
(* per-call rules are those of AttachRules (which set, which commands it          *)
(* offers), TransportRules (how a completion surfaces) and the target.            *)
(* Behaviours are exported (exhaustively to a small depth, by -simulate beyond)    *)
(* and replayed step by step on the real SCSI facade over both transports.         *)
(***************************************************************************)
EXTENDS TransportRules, Json

CONSTANTS MaxLen, Tr

VARIABLES ptype,      \* what the target reports as its peripheral device type: "disk" | "cd" | "changer"
          aset,       \* command set selected at the last successful attach: "sbc" | "mmc" | "smc"
          disk, cap, ident,   \* the target: two blocks, capacity (1..2), identity (1..2)
          fault,      \* completion the target gives the next command (0 = GOOD)
          kept,       \* command object the caller keeps: "none" | "cap" | "inq"
          held,       \* sense key of the FIRST CheckCondition the caller caught and still holds (0 = none)
          bset,       \* a second facade, attached to a media changer for the whole session: its set
          adev,       \* the device object the first facade is attached to NOW: "a" (its own) or "b" (the changer's)
          hist, exported
vars == <<ptype, aset, disk, cap, ident, fault, kept, held, bset, adev, hist, exported>>

\* only types the property names: for an unnamed type reported by the SAME device object the library keeps that
\* object's previous set, which still offers the primary commands; C16 judges unnamed types on fresh devices
Types == {"disk", "cd", "changer"}
SetOf(t) == CASE t = "disk" -> "sbc" [] t = "cd" -> "mmc" [] OTHER -> "smc"
TypeCode(t) == CASE t = "disk" -> 0 [] t = "cd" -> 5 [] OTHER -> 8
LBAs == {0, 1}
Vals == {1, 2}
\* 2, 3 and 5 stand for CHECK CONDITION with three different sense buffers (fixed format key 5h ASC 24h; fixed
\* format key 6h ASC 29h; descriptor format key 4h ASC 44h); the others are status bytes
CCs == {2, 3, 5}
FaultStatuses == CCs \cup {8, 24, 64}
KeyOf(st) == CASE st = 2 -> 5 [] st = 3 -> 6 [] OTHER -> 4
BlockSets == {"sbc", "mmc"}            \* sets in which the library lists READ(10) / WRITE(10)
CapSets == {"sbc"}                     \* ... READ CAPACITY(10) and ATA PASS-THROUGH(16) (its MMC table has neither)
Offers9E(s) == s = "sbc"                  \* AttachRules!Offers, restated for the two codes
OffersA3(s) == s \in {"sbc", "smc"}

\* every device object carries its own command set; the first facade uses the set of the device it is attached to now
Eff == IF adev = "a" THEN aset ELSE bset
\* what the device the first facade talks to reports as its type
NowType == IF adev = "a" THEN ptype ELSE "changer"

Init == /\ ptype = "disk" /\ aset = "sbc" /\ disk = [l \in LBAs |-> 0] /\ cap = 1 /\ ident = 1
        /\ fault = 0 /\ kept = "none" /\ held = 0 /\ bset = "smc" /\ adev = "a" /\ hist = <<>> /\ exported = FALSE

Room == Len(hist) < MaxLen /\ ~exported
Outcome(st) == IF st \in CCs THEN "CheckCondition" ELSE IF Tr = "sgio" THEN "UnspecifiedError" ELSE Named(st)
Out == IF fault = 0 THEN "ok" ELSE Outcome(fault)
Rec(a, x, y, out, sent, d1, d2) == [act |-> a, x |-> x, y |-> y, out |-> out, sent |-> sent, d1 |-> d1, d2 |-> d2]
\* one command goes to the target and consumes the armed completion
\* (a CheckCondition carries its sense key in d1; the caller holds on to the first one it catches)
Sent(a, x, y, d1, d2) == /\ hist' = Append(hist, Rec(a, x, y, Out, 1, IF Out = "ok" THEN d1 ELSE IF fault \in CCs THEN KeyOf(fault) ELSE 0,
                                                     IF Out = "ok" THEN d2 ELSE 0))
                         /\ fault' = 0
                         /\ held' = IF held = 0 /\ fault \in CCs THEN KeyOf(fault) ELSE held

Write(l, v) == /\ Room /\ Eff \in BlockSets /\ Sent("write", l, v, 0, 0)
               /\ disk' = IF fault = 0 THEN [disk EXCEPT ![l] = v] ELSE disk
               /\ UNCHANGED <<ptype, aset, cap, ident, kept, bset, adev, exported>>
Read(l) == /\ Room /\ Eff \in BlockSets /\ Sent("read", l, 0, disk[l], 0)
           /\ UNCHANGED <<ptype, aset, disk, cap, ident, kept, bset, adev, exported>>
\* a command without a data phase: its completion surfaces like any other
Tur == /\ Room /\ Sent("tur", 0, 0, 0, 0)
       /\ UNCHANGED <<ptype, aset, disk, cap, ident, kept, bset, adev, exported>>
\* READ CAPACITY(10) through the facade; with keep = TRUE the caller holds on to the command object
Cap(keep) == /\ Room /\ Eff \in CapSets /\ Sent(IF keep THEN "keepcap" ELSE "cap", 0, 0, cap, 0)
             /\ kept' = IF keep /\ fault = 0 THEN "cap" ELSE kept
             /\ UNCHANGED <<ptype, aset, disk, cap, ident, bset, adev, exported>>
Inq(keep) == /\ Room /\ Sent(IF keep THEN "keepinq" ELSE "inq", 0, 0, ident, TypeCode(NowType))
             /\ kept' = IF keep /\ fault = 0 THEN "inq" ELSE kept
             /\ UNCHANGED <<ptype, aset, disk, cap, ident, bset, adev, exported>>
\* the kept object is issued again (facade.execute(cmd); cmd.unmarshall()): it reports the target as it is NOW
Reissue == /\ Room /\ kept # "none"
           /\ Sent("reissue", 0, 0, IF kept = "cap" THEN cap ELSE ident, IF kept = "cap" THEN 0 ELSE TypeCode(NowType))
           /\ UNCHANGED <<ptype, aset, disk, cap, ident, kept, bset, adev, exported>>
\* the caller overwrites every value in the result it holds (nothing is sent, nothing else may change)
Edit == /\ Room /\ kept # "none"
        /\ hist' = Append(hist, Rec("edit", 0, 0, "ok", 0, 0, 0))
        /\ UNCHANGED <<ptype, aset, disk, cap, ident, fault, kept, held, bset, adev, exported>>
\* ATA PASS-THROUGH(16) asks for raw sense: only modelled with a GOOD completion
Ata == /\ Room /\ Eff \in CapSets /\ fault = 0 /\ Sent("ata", 0, 0, 0, 0)
       /\ UNCHANGED <<ptype, aset, disk, cap, ident, kept, bset, adev, exported>>
\* re-attach: one INQUIRY; when it completes the set of the type reported NOW is selected
Reattach == /\ Room /\ Sent("reattach", 0, 0, 0, 0)
            /\ aset' = IF fault = 0 /\ adev = "a" THEN SetOf(ptype) ELSE aset
            /\ UNCHANGED <<ptype, disk, cap, ident, kept, bset, adev, exported>>
\* the facade is handed the OTHER device object (facade(dev)): one INQUIRY, to THAT device; the facade talks to it from
\* now on, with the set that device carries (selected now if the INQUIRY completed); the device left behind hears nothing
Switch == /\ Room /\ Sent("switch", 0, 0, 0, 0)
          /\ adev' = IF adev = "a" THEN "b" ELSE "a"
          /\ aset' = IF fault = 0 /\ adev = "b" THEN SetOf(ptype) ELSE aset
          /\ UNCHANGED <<ptype, disk, cap, ident, kept, bset, exported>>
\* commands the facade finds by operation code: sent only if the selected set offers the code
Probe(code) ==
    /\ Room
    /\ IF (code = "9E" /\ Offers9E(Eff)) \/ (code = "A3" /\ OffersA3(Eff))
       THEN Sent("probe" \o code, 0, 0, IF code = "9E" THEN cap ELSE 0, 0)
       ELSE hist' = Append(hist, Rec("probe" \o code, 0, 0, "refused", 0, 0, 0)) /\ UNCHANGED <<fault, held>>
    /\ UNCHANGED <<ptype, aset, disk, cap, ident, kept, bset, adev, exported>>
\* the caller looks at the error it has been holding: it still says what the target sent with THAT completion
Inspect == /\ Room /\ held # 0
           /\ hist' = Append(hist, Rec("inspect", 0, 0, "ok", 0, held, 0))
           /\ UNCHANGED <<ptype, aset, disk, cap, ident, fault, kept, held, bset, adev, exported>>
\* the other facade (on its own device, a media changer served by the same target model) asks for the commands
\* found by operation code and re-attaches: nothing of the first facade's changes
Other(a) == /\ Room /\ a \in {"b_probe9E", "b_probeA3", "b_reattach"}
            /\ IF a = "b_probe9E" THEN hist' = Append(hist, Rec(a, 0, 0, "refused", 0, 0, 0)) /\ UNCHANGED <<fault, held>>
               ELSE Sent(a, 0, 0, 0, 0)
            /\ UNCHANGED <<ptype, aset, disk, cap, ident, kept, bset, adev, exported>>
\* the environment
SetType(t) == /\ Room /\ t # ptype /\ ptype' = t /\ hist' = Append(hist, Rec("settype", TypeCode(t), 0, "ok", 0, 0, 0))
              /\ UNCHANGED <<aset, disk, cap, ident, fault, kept, held, bset, adev, exported>>
Resize == /\ Room /\ cap' = 3 - cap /\ hist' = Append(hist, Rec("resize", 3 - cap, 0, "ok", 0, 0, 0))
          /\ UNCHANGED <<ptype, aset, disk, ident, fault, kept, held, bset, adev, exported>>
Rename == /\ Room /\ ident' = 3 - ident /\ hist' = Append(hist, Rec("rename", 3 - ident, 0, "ok", 0, 0, 0))
          /\ UNCHANGED <<ptype, aset, disk, cap, fault, kept, held, bset, adev, exported>>
Arm(st) == /\ Room /\ fault = 0 /\ fault' = st /\ hist' = Append(hist, Rec("arm", st, 0, "ok", 0, 0, 0))
           /\ UNCHANGED <<ptype, aset, disk, cap, ident, kept, held, bset, adev, exported>>
Export == /\ Len(hist) = MaxLen /\ ~exported
          /\ PrintT(<<"SESSION", ToJson([tr |-> Tr, steps |-> hist])>>)
          /\ exported' = TRUE /\ UNCHANGED <<ptype, aset, disk, cap, ident, fault, kept, held, bset, adev, hist>>

Next == \/ \E l \in LBAs, v \in Vals : Write(l, v)
        \/ \E l \in LBAs : Read(l)
        \/ \E k \in BOOLEAN : Cap(k) \/ Inq(k)
        \/ Reissue \/ Edit \/ Ata \/ Reattach \/ Switch \/ Inspect \/ Tur
        \/ \E a \in {"b_probe9E", "b_probeA3", "b_reattach"} : Other(a)
        \/ \E c \in {"9E", "A3"} : Probe(c)
        \/ \E t \in Types : SetType(t)
        \/ Resize \/ Rename
        \/ \E st \in FaultStatuses : Arm(st)
        \/ Export
Spec == Init /\ [][Next]_vars

\* the selected set only changes at a re-attach that completed, and then to the set of the reported type
SetFollowsAttach == [][aset' # aset => /\ hist' # <<>> /\ hist'[Len(hist')].act \in {"reattach", "switch"} /\ hist'[Len(hist')].out = "ok"
                                       /\ aset' = SetOf(ptype)]_vars
\* a command that was not offered reached nobody, a command that failed changed nothing on the medium
RefusedSendsNothing == \A i \in 1..Len(hist) : hist[i].out = "refused" => hist[i].sent = 0
TypeOK == adev \in {"a", "b"} /\ aset \in {"sbc", "mmc", "smc"} /\ kept \in {"none", "cap", "inq"} /\ cap \in 1..2 /\ ident \in 1..2
=============================================================================
