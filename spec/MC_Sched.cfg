SPECIFICATION MCSpec
CONSTANTS
  N <- EnvN
  P <- EnvP
  Grid <- EnvGrid
INVARIANT Bounded
INVARIANT OneRuns
CHECK_DEADLOCK FALSE
