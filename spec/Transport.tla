------------------------------ MODULE Transport ------------------------------
(***************************************************************************)
(* The transport as a state machine over histories of executions.  A        *)
(* command object may be executed again; `stored[c]` is the sense the        *)
(* object still carries from earlier executions (this is what makes the       *)
(* stale-sense history reachable).  One execution is three steps, as in the   *)
(* code: the target completes, the binding reports, the library maps.         *)
(***************************************************************************)
EXTENDS TransportRules

CONSTANTS Cmds, Statuses        \* command objects alive; status values explored

VARIABLES tr, stored, phase, cur, out
vars == <<tr, stored, phase, cur, out>>

NoCur == [c |-> "", st |-> 0, s |-> "none", raw |-> FALSE]

Init == /\ tr \in Transports
        /\ stored = [c \in Cmds |-> "none"]
        /\ phase = "idle"
        /\ cur = NoCur
        /\ out = Ret("none")

\* the caller hands command c to the device; the target answers with status st and sense s
TargetCompletes(c, st, s, raw) ==
    /\ phase = "idle"
    /\ (st # CHECK_CONDITION => s = "none")
    /\ cur' = [c |-> c, st |-> st, s |-> s, raw |-> raw]
    /\ phase' = "completed"
    /\ UNCHANGED <<tr, stored, out>>

\* the binding turns the completion into a return value / exception / task status
BindingReports == /\ phase = "completed" /\ phase' = "reported" /\ UNCHANGED <<tr, stored, cur, out>>

\* the library maps it for the caller: any outcome the rules allow; the object
\* remembers the sense of this execution
LibraryMaps ==
    /\ phase = "reported"
    /\ out' \in {IF a.exc = "*" THEN [a EXCEPT !.exc = "SomeError"] ELSE a :
                    a \in Allowed(tr, cur.st, cur.s, cur.raw)}
    /\ stored' = [stored EXCEPT ![cur.c] = IF cur.st = CHECK_CONDITION THEN cur.s ELSE @]
    /\ phase' = "idle"
    /\ UNCHANGED <<tr, cur>>

Exec == \E c \in Cmds, st \in Statuses, s \in SenseIds, raw \in BOOLEAN : TargetCompletes(c, st, s, raw)
Next == Exec \/ BindingReports \/ LibraryMaps
Spec == Init /\ [][Next]_vars

Done == phase = "idle" /\ cur # NoCur

\* a command that did not complete with GOOD never looks successful
NoSilentFailure ==
    Done /\ out.how = "returned" =>
        cur.st = GOOD \/ (cur.st = CHECK_CONDITION /\ cur.raw /\ out.raw = cur.s /\ cur.s # "none")
\* the reported key/ASC/ASCQ are those of the sense sent in THIS execution
SenseFaithful ==
    Done /\ out.exc = "CheckCondition" =>
        cur.st = CHECK_CONDITION /\ <<out.key, out.asc, out.ascq>> = Triple(cur.s)
NamedStatusNamedError ==
    Done /\ tr = "iscsi" /\ Named(cur.st) # "" => out.how = "raised" /\ out.exc = Named(cur.st)
GoodReturns == Done /\ cur.st = GOOD => out.how = "returned"
\* raw sense is attached only when asked for
RawOnlyOnRequest == Done /\ out.raw # "none" => cur.raw
=============================================================================
