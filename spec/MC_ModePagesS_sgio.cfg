SPECIFICATION SpecSmall
CONSTANTS
  MaxLen = 4
  Tr = "sgio"
INVARIANT TypeOK
INVARIANT UnchangeableKept
PROPERTY ProtectedMediumKept
PROPERTY RejectedChangesNothing
PROPERTY SavedOnlyBySp
CHECK_DEADLOCK FALSE
