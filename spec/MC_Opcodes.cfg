SPECIFICATION Spec
INVARIANT SameNameSameValue
INVARIANT NamedHasFixedLength
INVARIANT TablesSane
CHECK_DEADLOCK FALSE
