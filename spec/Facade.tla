-------------------------------- MODULE Facade --------------------------------
(***************************************************************************)
(* C13: one facade call = look the operation code up in the attached          *)
(* device's command set, build the command, hand it to the device exactly      *)
(* once, then (for commands with a decoder) decode the data-in buffer the       *)
(* device filled, then return the command.  `execs` counts device.execute       *)
(* calls, `buf` tells whose buffers the device saw ("cmd" = the very buffers    *)
(* of the command the caller gets back), `decodedFrom` what the decoder read.   *)
(***************************************************************************)
EXTENDS Naturals, TLC
CONSTANTS HasDecoder
VARIABLES phase, execs, buf, filled, decodedFrom
vars == <<phase, execs, buf, filled, decodedFrom>>
Init == phase = "idle" /\ execs = 0 /\ buf = "none" /\ filled = FALSE /\ decodedFrom = "none"
Lookup  == phase = "idle" /\ phase' = "looked_up" /\ UNCHANGED <<execs, buf, filled, decodedFrom>>
Build   == phase = "looked_up" /\ phase' = "built" /\ UNCHANGED <<execs, buf, filled, decodedFrom>>
Refuse  == phase = "looked_up" /\ phase' = "raised" /\ UNCHANGED <<execs, buf, filled, decodedFrom>>
Execute == /\ phase = "built" /\ phase' = "executed" /\ execs' = execs + 1 /\ buf' = "cmd" /\ filled' = TRUE
           /\ UNCHANGED decodedFrom
Fail    == phase = "built" /\ phase' = "raised" /\ execs' = execs + 1 /\ buf' = "cmd" /\ UNCHANGED <<filled, decodedFrom>>
Decode  == /\ phase = "executed" /\ HasDecoder /\ phase' = "decoded"
           /\ decodedFrom' = IF filled THEN "device data" ELSE "untouched buffer"
           /\ UNCHANGED <<execs, buf, filled>>
Return  == /\ phase = (IF HasDecoder THEN "decoded" ELSE "executed") /\ phase' = "returned"
           /\ UNCHANGED <<execs, buf, filled, decodedFrom>>
Next == Lookup \/ Build \/ Refuse \/ Execute \/ Fail \/ Decode \/ Return
Spec == Init /\ [][Next]_vars
ExactlyOnce == phase = "returned" => execs = 1
AtMostOnce == execs <= 1
DecodeAfterExecute == decodedFrom # "none" => decodedFrom = "device data"
SameBuffers == phase = "returned" => buf = "cmd"
NoDecodeOnError == phase = "raised" => decodedFrom = "none"
=============================================================================
