----------------------------- MODULE EnumRules -----------------------------
(***************************************************************************)
(* C18: what an enumeration is.  An enumeration is an ordered partial map    *)
(* name -> value (a sequence of <<name, value id>> in insertion order).      *)
(* Value ids 1..NV; Canon makes two of them EQUAL but distinct values, so     *)
(* that "first supplied name wins" in reverse lookup is observable.           *)
(***************************************************************************)
EXTENDS Naturals, Sequences, FiniteSets, TLC

Canon(v) == IF v = 4 THEN 3 ELSE v          \* value 4 equals value 3
EqV(v, w) == Canon(v) = Canon(w)

NamesOf(s) == {s[i][1] : i \in 1..Len(s)}
Has(s, n) == n \in NamesOf(s)
IndexOf(s, n) == CHOOSE i \in 1..Len(s) : s[i][1] = n
ValueOf(s, n) == s[IndexOf(s, n)][2]
KeysSeq(s) == [i \in 1..Len(s) |-> s[i][1]]

\* reverse lookup: the first supplied name carrying an equal value, "" if none
Rev(s, v) == LET hits == {i \in 1..Len(s) : EqV(s[i][2], v)} IN
             IF hits = {} THEN "" ELSE s[CHOOSE i \in hits : \A j \in hits : i <= j][1]

AddTo(s, n, v) == Append(s, <<n, v>>)
RemoveFrom(s, n) == LET i == IndexOf(s, n) IN SubSeq(s, 1, i - 1) \o SubSeq(s, i + 1, Len(s))

\* the same operations on an ordinary dictionary (a function); used to cross-check
DAdd(d, n, v) == [x \in DOMAIN d \cup {n} |-> IF x = n THEN v ELSE d[x]]
DRemove(d, n) == [x \in DOMAIN d \ {n} |-> d[x]]
=============================================================================
