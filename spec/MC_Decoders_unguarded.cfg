SPECIFICATION Spec
CONSTANTS
  Size = 12
  Guarded = FALSE
PROPERTY Termination
CHECK_DEADLOCK FALSE
