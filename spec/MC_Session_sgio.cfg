SPECIFICATION Spec
CONSTANTS
  MaxLen = 3
  Tr = "sgio"
INVARIANT TypeOK
INVARIANT RefusedSendsNothing
PROPERTY SetFollowsAttach
CHECK_DEADLOCK FALSE
