SPECIFICATION Spec
CONSTANTS
  DevStrings <- MCDev
  Initiators <- MCIni
INVARIANT MissingRefusedBeforeOpen
INVARIANT OpenedExactlyRequested
INVARIANT RefusedIffMissing
INVARIANT RefusedIffMissing2
CHECK_DEADLOCK FALSE
