---------------------------- MODULE Trace_Handle ----------------------------
(***************************************************************************)
(* Code -> spec for C15.  Events are the actions of Handle.tla with the      *)
(* observed projection after the step:                                       *)
(*   [a, obs |-> [out, sent, live, hopen, hmode]]   library / environment action *)
(*   [a |-> "reset", detect, mode]           a new history starts             *)
(*   [a |-> "iscsi", connects, disconnects]  one iSCSI session, summarised    *)
(* A step is accepted when some successor the specification allows has the    *)
(* observed projection.  After a rejected step the rest of that history is    *)
(* skipped (the states are no longer comparable); the next reset resumes.     *)
(***************************************************************************)
EXTENDS Handle, Json, IOUtils, Sequences

Trace == JsonDeserialize(IOEnv.TRACE_FILE)
VARIABLES l, dead

Proj(t) == [out |-> t.out, sent |-> t.sent, live |-> t.live, hopen |-> (t.handle = "open"), hmode |-> t.hmode]

Fresh0(d, m) == [node |-> "present", fresh |-> TRUE, handle |-> "open", detect |-> d, armed |-> FALSE,
                 live |-> 1, sent |-> "none", out |-> "ok", act |-> "open", mode |-> m, hmode |-> m, oarmed |-> FALSE]

Clause(e) ==
    IF e.obs.hmode # s.mode THEN "ReopenedAsRequested"
    ELSE IF e.a = "exec" /\ e.obs.sent = "stale" /\ s.detect THEN "NoStaleSend"
    ELSE IF e.a = "exec" /\ s.detect /\ s.node = "absent" THEN "VanishedIsError"
    ELSE IF e.a = "exec" /\ ~s.detect THEN "DetectionOffKeepsHandle"
    ELSE IF e.a = "exec" /\ s.armed THEN "ReopenedEvenIfCloseFails"
    ELSE IF e.a \in {"close", "exit_ok", "exit_exc"} THEN "ReleasedOnce"
    ELSE IF e.obs.live > 1 THEN "OneHandle"
    ELSE "FreshAfterExec"

TInit == l = 1 /\ dead = FALSE /\ s = Fresh0(TRUE, "ro")

StepT ==
    /\ l <= Len(Trace)
    /\ LET e == Trace[l] IN
       IF e.a = "reset" THEN s' = Fresh0(e.detect, e.mode) /\ dead' = FALSE
       ELSE IF e.a = "iscsi" THEN
            /\ (IF e.connects = 1 /\ e.disconnects = 1 THEN TRUE
                ELSE PrintT(<<"VERDICT", ToJson([i |-> l, clause |-> "ReleasedOnce",
                                                 detail |-> ToJson([connects |-> e.connects, disconnects |-> e.disconnects])])>>))
            /\ UNCHANGED <<s, dead>>
       ELSE IF dead THEN UNCHANGED <<s, dead>>
       ELSE LET cands == {[t EXCEPT !.act = e.a] : t \in {u \in Succ(s, e.a) : e.a \in EnvActs \/ Proj(u) = e.obs}} IN
            IF cands # {} THEN s' \in cands /\ dead' = FALSE
            ELSE /\ PrintT(<<"VERDICT", ToJson([i |-> l, clause |-> Clause(e),
                                                detail |-> ToJson([state |-> s, allowed |-> {Proj(u) : u \in Succ(s, e.a)}])])>>)
                 /\ dead' = TRUE /\ UNCHANGED s
    /\ l' = l + 1

Finish == l = Len(Trace) + 1 /\ PrintT(<<"CONSUMED", ToJson([n |-> l - 1])>>) /\ UNCHANGED <<l, dead, s>>
TSpec == TInit /\ [][StepT \/ Finish]_<<l, dead, s>>
=============================================================================
