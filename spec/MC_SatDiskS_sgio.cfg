SPECIFICATION SpecSmall
CONSTANTS
  MaxLen = 3
  Tr = "sgio"
INVARIANT TypeOK
INVARIANT ReadsSeeWrites
PROPERTY OnlyWritesWrite
PROPERTY MediaAccessSpinsUp
CHECK_DEADLOCK FALSE
