SPECIFICATION Spec
CONSTANTS
  MaxLen = 1000000
  Tr = "iscsi"
INVARIANT TypeOK
INVARIANT HolderRegistered
INVARIANT ExclusiveRead
PROPERTY RefusedChangesNothing
PROPERTY ExclusiveWrite
PROPERTY GenMonotone
PROPERTY HolderChange
VIEW CoreView
CHECK_DEADLOCK FALSE
