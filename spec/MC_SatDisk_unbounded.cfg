SPECIFICATION Spec
CONSTANTS
  MaxLen = 1000000
  Tr = "iscsi"
INVARIANT TypeOK
INVARIANT ReadsSeeWrites
PROPERTY OnlyWritesWrite
PROPERTY MediaAccessSpinsUp
VIEW CoreView
CHECK_DEADLOCK FALSE
