------------------------------- MODULE Refuse -------------------------------
(* The request state machine of C17; the verdict rules are in RefuseRules.tla *)
EXTENDS RefuseRules, Integers

VARIABLES req, phase, execs, obj
vars == <<req, phase, execs, obj>>

Values(k) ==
    CASE k \in {"facade_bs0", "facade_bs_reset"} -> 0..8
      [] k \in {"opcode_ctor", "opcode_len"} -> 0..255
      [] k = "opcode_reuse" -> 0..1023
      [] k = "prin_sa" -> (-8..40) \cup {255, 256, 65536, -256, -65536}   \* negative integers are integers too
      [] k \in {"xcopy_cscd_key", "xcopy_seg_key"} -> {0, 1}
      [] k = "xcopy_cscd_type" -> \hD0..\hFF
      [] k = "xcopy_seg_type" -> 0..\h30 \cup {\hBE, \hBF, \hC0}
      [] k = "xcopy_lu_id_type" -> 0..3
      [] OTHER -> {0, 1}            \* tid_*: v = tpid_format given / not (variants of the same inconsistency)

Init == /\ \E k \in Kinds : \E v \in Values(k) : req = [k |-> k, v |-> v]
        /\ phase = "idle" /\ execs = 0 /\ obj = FALSE

Validate == /\ phase = "idle"
            /\ phase' = IF Verdict(req) = "" THEN "validated" ELSE "refused"
            /\ UNCHANGED <<req, execs, obj>>
Build == /\ phase = "validated" /\ phase' = "built" /\ obj' = TRUE /\ UNCHANGED <<req, execs>>
\* only requests that go through the facade are sent
Send  == /\ phase = "built" /\ req.k \in {"prin_sa", "facade_bs0", "facade_bs_reset"} /\ phase' = "sent" /\ execs' = execs + 1 /\ UNCHANGED <<req, obj>>
Next == Validate \/ Build \/ Send
Spec == Init /\ [][Next]_vars

RefusedBeforeSend == phase = "refused" => execs = 0 /\ ~obj
SentOnlyBuilt == execs > 0 => obj /\ Verdict(req) = ""
AtMostOnce == execs <= 1
=============================================================================
