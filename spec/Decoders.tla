------------------------------ MODULE Decoders ------------------------------
(***************************************************************************)
(* C11: decoding device data always terminates.  Every response decoder is   *)
(* a loop that consumes the buffer in strides taken from length fields        *)
(* INSIDE the buffer, i.e. chosen by the device.  The loop is modelled over    *)
(* an abstract buffer of Size bytes: in each iteration the (hostile) device    *)
(* picks the stride class; nested lists are an outer and an inner loop.        *)
(* Guarded = TRUE is the required design: a stride that does not advance is     *)
(* treated as malformed data and ends the loop.  With Guarded = FALSE the       *)
(* model is the unguarded loop and TLC exhibits the lasso (stride 0 forever).   *)
(***************************************************************************)
EXTENDS Naturals, TLC

CONSTANTS Size, Guarded

VARIABLES outer, inner, edl, steps, done      \* edl: element size announced in the page header, fixed per page
vars == <<outer, inner, edl, steps, done>>

Strides == {0, 1, 4, Size, Size + 7}         \* zero / minimal / typical / exact / beyond the end

Init == outer = Size /\ inner = 0 /\ edl = 0 /\ steps = 0 /\ done = FALSE

Bump == IF steps > 2 * Size + 2 THEN steps ELSE steps + 1      \* saturating: keeps the unguarded model finite

Consume(rem, s) == IF s >= rem THEN 0 ELSE rem - s

\* the outer loop takes one descriptor (page) whose announced size is s and whose body is an inner list
OuterStep(s, e) ==
    /\ ~done /\ inner = 0 /\ outer > 0
    /\ edl' = e
    /\ IF s = 0 /\ Guarded THEN done' = TRUE /\ UNCHANGED <<outer, inner>>
       ELSE /\ outer' = Consume(outer, s)
            /\ inner' = IF s > outer THEN outer ELSE s         \* the body the inner loop walks
            /\ done' = FALSE
    /\ steps' = Bump
InnerStep ==
    /\ ~done /\ inner > 0
    /\ IF edl = 0 /\ Guarded THEN inner' = 0 ELSE inner' = Consume(inner, edl)
    /\ steps' = Bump /\ UNCHANGED <<outer, edl, done>>
Finish == /\ ~done /\ inner = 0 /\ outer = 0 /\ done' = TRUE /\ UNCHANGED <<outer, inner, edl, steps>>

Next == (\E s, e \in Strides : OuterStep(s, e)) \/ InnerStep \/ Finish
Spec == Init /\ [][Next]_vars /\ WF_vars(Next)

\* work is proportional to the buffer: at most one step per byte of every list level
Budget == 2 * Size + 2
Variant == outer * (Size + 1) + inner             \* lexicographic (outer, inner)
VariantDecreases == [][(~done /\ ~done' /\ steps' # steps) => (Variant' < Variant \/ (Guarded /\ inner' = 0 /\ outer' = outer))]_vars
WorkBounded == steps <= Budget
Termination == <>done
=============================================================================
