SPECIFICATION Spec
CONSTANTS
  Enums = {"E1", "E2"}
  Names = {"a", "b"}
  NV = 4
INVARIANT Agreement
INVARIANT RevSound
PROPERTY NoCrossTalk
PROPERTY RefusalsChangeNothing
CHECK_DEADLOCK FALSE
