------------------------------ MODULE Trace_Data ------------------------------
(***************************************************************************)
(* Code -> spec for C04/C05/C06: one event per unmarshall call                *)
(*   [ev |-> "Unmarshal", fmt, bytes, out (path -> bytes), exc]               *)
(* TLC re-derives from the BYTES what a conformant reader must find           *)
(* (T10Data!Parse) and compares with the library's flattened result; the       *)
(* Python generator that produced the bytes is not trusted: a buffer whose     *)
(* embedded lengths are not honest (T10Data!Okay) is not judged.                 *)
(***************************************************************************)
EXTENDS T10Data, Json, IOUtils
Trace == JsonDeserialize(IOEnv.TRACE_FILE)
VARIABLE l

Wrong(f, out) ==
    \/ f[1] \notin DOMAIN out
    \/ (f[2] = "n" /\ ~NumEq(out[f[1]], f[3]))
    \/ (f[2] = "b" /\ out[f[1]] # f[3])

\* fields that exist for some element types only: a result that reports one for an element of another type has
\* invented it (the device sent no such field)
TypeSpecific == {"/access", "/oir", "/cmc", "/inenab", "/exenab", "/impexp"}
EndsWith(p, x) == Len(p) >= Len(x) /\ SubSeq(p, Len(p) - Len(x) + 1, Len(p)) = x
Invented(e, facts) ==
    IF e.fmt # "ReadElementStatus" THEN {}
    ELSE LET known == {f[1] : f \in facts}
             inv == {q \in DOMAIN e.out : q \notin known /\ \E x \in TypeSpecific : EndsWith(q, x)} IN
         IF inv = {} THEN {} ELSE {<<"NothingInvented", ToJson([paths |-> inv])>>}
JudgeP0(e, facts) ==
    LET bad == {f \in facts : Wrong(f, e.out)}
        counts == {f \in bad : f[1] \in DOMAIN e.out /\ Len(f[1]) > 5 /\ SubSeq(f[1], Len(f[1]) - 4, Len(f[1])) = "/#len"} IN
    IF bad = {} THEN {}
    ELSE {<<IF counts # {} THEN "DescriptorsWithinLength" ELSE "DecodedValue",
            ToJson([paths |-> {f[1] : f \in bad}, expected |-> {<<f[1], f[3]>> : f \in {g \in bad : TRUE}}])>>}

JudgeP(e, facts) == JudgeP0(e, facts) \cup Invented(e, facts)

\* data-out lists (C05): [ev |-> "Marshal", fmt, in (the caller's values, flattened), bytes (cmd.dataout), exc]
\* every fact read off the bytes must be the caller's value (absent optional values read as zero / empty)
WrongIn(f, inp) ==
    IF f[1] \in DOMAIN inp
    THEN (f[2] = "n" /\ ~NumEq(inp[f[1]], f[3])) \/ (f[2] = "b" /\ inp[f[1]] # f[3])
    ELSE (f[2] = "n" /\ Strip(f[3]) # <<>>) \/ (f[2] = "b" /\ f[3] # <<>> /\ \E i \in 1..Len(f[3]) : f[3][i] # 0)
\* parameter data the library builds for the data-in direction (C06): same judgement with the data-in parsers
JudgeBuilt(e) ==
    IF e.exc # "" THEN {<<"Constructible", e.exc>>}
    ELSE (IF ~Okay(e.fmt, e.bytes) THEN {<<"HonestLengths", "">>} ELSE {})
         \cup LET bad == {f \in Parse(e.fmt, e.bytes) : WrongIn(f, e.in)} IN
              IF bad = {} THEN {} ELSE {<<"ValuePlacement", ToJson([paths |-> {f[1] : f \in bad}])>>}

JudgeOut(e) ==
    IF e.fmt \in Formats THEN JudgeBuilt(e)
    ELSE IF e.fmt \notin OutFormats THEN {<<"UnknownFormat", e.fmt>>}
    ELSE IF e.exc # "" THEN {<<"Constructible", e.exc>>}
    ELSE (IF ~Exact(e.fmt, e.bytes) THEN {<<"HonestLengths", "">>} ELSE {})
         \cup LET bad == {f \in ParseOut(e.fmt, e.bytes) : WrongIn(f, e.in)} IN
              IF bad = {} THEN {} ELSE {<<"ValuePlacement", ToJson([paths |-> {f[1] : f \in bad}])>>}

\* C06, second half: [ev |-> "Rebuild", fmt, orig (a device response), bytes (what the library built from
\* what it parsed out of orig)]: a conformant reader must find the same values in both; for a canonical
\* response (no bit set outside its fields) that is byte equality
JudgeRebuild(e) ==
    IF e.fmt \notin Formats THEN {<<"UnknownFormat", e.fmt>>}
    ELSE IF ~Okay(e.fmt, e.orig) THEN {<<"Unjudged", "not well-formed">>}
    ELSE IF ~Okay(e.fmt, e.bytes) THEN {<<"HonestLengths", "">>}
    ELSE LET A == Parse(e.fmt, e.orig)  B == Parse(e.fmt, e.bytes)
             diff == {f[1] : f \in (A \ B) \cup (B \ A)} IN
         IF diff = {} THEN {} ELSE {<<"RebuildKeepsValues", ToJson([paths |-> diff])>>}

Judge(e) ==
    IF e.ev = "Rebuild" THEN JudgeRebuild(e)
    ELSE IF e.ev = "Marshal" THEN JudgeOut(e)
    ELSE IF e.fmt = "ReadCd" THEN
         (IF ~Ok_ReadCd(e.bytes, e.par) THEN {<<"Unjudged", "layout not covered">>}
          ELSE IF e.exc # "" THEN {<<"DecodesWithoutError", e.exc>>}
          ELSE JudgeP(e, P_ReadCd(e.bytes, e.par)))
    ELSE IF e.fmt \notin Formats THEN {<<"UnknownFormat", e.fmt>>}
    ELSE IF ~Okay(e.fmt, e.bytes) THEN {<<"Unjudged", "not well-formed">>}
    ELSE IF e.exc # "" THEN {<<"DecodesWithoutError", e.exc>>}
    ELSE JudgeP(e, Parse(e.fmt, e.bytes))

TInit == l = 1
Step == /\ l <= Len(Trace)
        /\ \A v \in Judge(Trace[l]) : PrintT(<<"VERDICT", ToJson([i |-> l, clause |-> v[1], detail |-> v[2]])>>)
        /\ l' = l + 1
Finish == l = Len(Trace) + 1 /\ PrintT(<<"CONSUMED", ToJson([n |-> l - 1])>>) /\ UNCHANGED l
TSpec == TInit /\ [][Step \/ Finish]_l
=============================================================================
