---------------------------- MODULE Trace_Command ----------------------------
(***************************************************************************)
(* Code -> spec for C01, C02, C03, C17 (and the CDB clauses of C05/C13):     *)
(* every recorded constructor call, marshall_cdb and unmarshall_cdb call is   *)
(* one event, judged against T10Cdb.tla.  All failing clauses of an event    *)
(* are reported; a rejected event never stops the run.                        *)
(*                                                                          *)
(*   Construct   cls, a (argument name -> Num), exc ("" or exception class),  *)
(*               cdb, dinlen, doutlen, bufs_ok, dout_same (data-out is the     *)
(*               caller's data, byte for byte)                                *)
(*   EncodeDict  cls, d (key -> Num), out (bytes)                             *)
(*   DecodeBytes cls, in (bytes), out (key -> Num)                            *)
(***************************************************************************)
EXTENDS CommandRules

Trace == JsonDeserialize(IOEnv.TRACE_FILE)

VARIABLE l

Init == l = 1

Report(vs) == \A v \in vs : PrintT(<<"VERDICT", ToJson([i |-> l, clause |-> v[1], detail |-> v[2]])>>)

Step == /\ l <= Len(Trace)
        /\ Report(Judge(Trace[l]))
        /\ l' = l + 1

Finish == /\ l = Len(Trace) + 1
          /\ PrintT(<<"CONSUMED", ToJson([n |-> l - 1])>>)
          /\ UNCHANGED l

Next == Step \/ Finish
Spec == Init /\ [][Next]_l
=============================================================================
