------------------------------ MODULE Trace_Target ------------------------------
(***************************************************************************)
(* events: [ev |-> "resize", cap]   the target's capacity changes                  *)
(*         [ev |-> "reset", bs, cap (last LBA, Num)]                          *)
(*         [ev |-> "io", method, a (caller's arguments: lba, tl / nb, flags),  *)
(*          data (caller's write data), cdb, dout (what the binding received), *)
(*          din_target (what the target put into data-in), din_seen (what the   *)
(*          caller finds in cmd.datain afterwards), res (decoded result, flat)] *)
(* The TLA+ target replays the received CDBs on its own disk; `mine` is the     *)
(* caller's view (what was last written at the LBAs the CALLER named).          *)
(***************************************************************************)
EXTENDS TargetRules, Json, IOUtils
Trace == JsonDeserialize(IOEnv.TRACE_FILE)
VARIABLES l, disk, mine, bs, cap

Small3(v) == NatClamp(v)
NdT(c, t) == IF c = "WriteSame16" THEN NatOfNum(t["ndob"]) ELSE 0
NdA(c, e) == IF c = "WriteSame16" /\ "ndob" \in DOMAIN e.a THEN NatOfNum(e.a["ndob"]) ELSE 0
JudgeIo(e, c, t) ==      \* c: class found from the opcode byte, t: fields the target reads off the CDB
    LET ph == Cmd[c].phase.k
        isw == ph \in {"out_data", "out_block"}
        isr == ph = "in_blocks"
        n == IF ph = "out_block" THEN Small3(t["nb"]) ELSE IF isw \/ isr THEN Small3(t["tl"]) ELSE 0
        an == IF ph = "out_block" THEN Small3(e.a["nb"]) ELSE IF isw \/ isr THEN Small3(e.a["tl"]) ELSE 0 IN
    (IF c # e.cls THEN {<<"OpcodeOfMethod", c>>} ELSE {})
    \cup (IF (isw \/ isr) /\ (~NumEq(t["lba"], e.a["lba"]) \/ n # an) THEN {<<"TargetRecovers", ToJson(t)>>} ELSE {})
    \cup (IF isw /\ NdT(c, t) # NdA(c, e) THEN {<<"TargetRecovers", "NDOB " \o ToString(NdT(c, t))>>} ELSE {})
    \cup (IF isw /\ NdT(c, t) = 0 /\ e.dout # e.data THEN {<<"WriteDataReachesTarget", "">>} ELSE {})
    \cup (IF isr /\ e.din_target # ReadBlocks(disk, t["lba"], n, bs) THEN {<<"HarnessTargetNotConformant", "">>} ELSE {})
    \cup (IF isr /\ e.din_seen # ReadBlocks(mine, e.a["lba"], an, bs) THEN {<<"ReadYourWrites", ToJson(ReadBlocks(mine, e.a["lba"], an, bs))>>} ELSE {})
    \cup (IF c = "ReadCapacity16" /\ "returned_lba" \in DOMAIN e.res /\ (~NumEq(e.res["returned_lba"], cap) \/ NatClamp(e.res["block_length"]) # bs)
          THEN {<<"CapacityReported", ToJson(cap)>>} ELSE {})
    \cup (IF c = "ReadCapacity10" /\ "returned_lba" \in DOMAIN e.res
             /\ (~NumEq(e.res["returned_lba"], IF Len(Strip(cap)) > 4 THEN <<255, 255, 255, 255>> ELSE cap) \/ NatClamp(e.res["block_length"]) # bs)
          THEN {<<"CapacityReported", ToJson(cap)>>} ELSE {})
    \cup (IF c = "Inquiry" /\ "t10_vendor_identification" \in DOMAIN e.res /\ e.res["t10_vendor_identification"] # e.ident
          THEN {<<"IdentityReported", "">>} ELSE {})

\* nd = 1: no data-out buffer (NDOB), the blocks become zero.  The target's view takes NDOB from the CDB it received,
\* the caller's view from the argument the caller gave; a buffer shorter than a block (a command that announces a
\* data-out phase it does not have) is written as far as it goes, the rest of the block reads as zero
Blk(dat) == IF Len(dat) >= bs THEN SubSeq(dat, 1, bs) ELSE dat \o Zeros(bs - Len(dat))
Wr(e, c, nd, d, lbaOf(_), cnt, dat) ==
    IF Cmd[c].phase.k = "out_data" THEN WriteBlocks(d, lbaOf("lba"), cnt, bs, IF Len(dat) >= cnt * bs THEN dat ELSE dat \o Zeros(cnt * bs - Len(dat)))
    ELSE IF Cmd[c].phase.k = "out_block" THEN
         WriteBlocks(d, lbaOf("lba"), cnt, bs, Repeat(IF c = "WriteSame16" /\ nd = 1 THEN Zeros(bs) ELSE Blk(dat), cnt))
    ELSE d

TInit == l = 1 /\ disk = [x \in {} |-> <<>>] /\ mine = [x \in {} |-> <<>>] /\ bs = 1 /\ cap = <<>>
StepIo(e, c) ==
    LET t == TargetDecode(c, e.cdb)
        tgt(k) == t[k]
        cal(k) == e.a[k] IN
    /\ \A v \in JudgeIo(e, c, t) : PrintT(<<"VERDICT", ToJson([i |-> l, clause |-> v[1], detail |-> v[2]])>>)
    /\ disk' = Wr(e, c, NdT(c, t), disk, tgt, IF Cmd[c].phase.k = "out_block" THEN Small3(t["nb"]) ELSE IF Cmd[c].phase.k = "out_data" THEN Small3(t["tl"]) ELSE 0, e.dout)
    /\ mine' = Wr(e, c, NdA(c, e), mine, cal, IF Cmd[c].phase.k = "out_block" THEN Small3(e.a["nb"]) ELSE IF Cmd[c].phase.k = "out_data" THEN Small3(e.a["tl"]) ELSE 0, e.data)
Step == /\ l <= Len(Trace)
        /\ LET e == Trace[l] IN
           IF e.ev = "reset"
           THEN disk' = [x \in {} |-> <<>>] /\ mine' = [x \in {} |-> <<>>] /\ bs' = e.bs /\ cap' = e.cap
           ELSE IF e.ev = "resize"        \* the logical unit grew or shrank (its data stays): later capacity reports follow
           THEN cap' = e.cap /\ UNCHANGED <<disk, mine, bs>>
           ELSE LET c == IF e.cdb = <<>> THEN "" ELSE ClassOfOp(e.cdb[1]) IN
                /\ UNCHANGED <<bs, cap>>
                /\ IF c = "" \/ Len(e.cdb) # Cmd[c].len
                   THEN PrintT(<<"VERDICT", ToJson([i |-> l, clause |-> "OpcodeOfMethod", detail |-> "unknown opcode or wrong length"])>>)
                        /\ UNCHANGED <<disk, mine>>
                   ELSE StepIo(e, c)
        /\ l' = l + 1
Finish == l = Len(Trace) + 1 /\ PrintT(<<"CONSUMED", ToJson([n |-> l - 1])>>) /\ UNCHANGED <<l, disk, mine, bs, cap>>
TSpec == TInit /\ [][Step \/ Finish]_<<l, disk, mine, bs, cap>>
=============================================================================
