------------------------------ MODULE MC_Bits ------------------------------
(***************************************************************************)
(* The codec as a state machine: a buffer with a background pattern, a      *)
(* layout of pairwise disjoint fields whose bits start out zero, and one    *)
(* Write action per field, in any order.  TLC explores every order; the     *)
(* invariants are the laws of C10.  Every terminal state is exported as a   *)
(* case (layout, values, background, predicted final buffer) that the       *)
(* harness replays into the library's encode_dict / decode_bits.            *)
(***************************************************************************)
EXTENDS Bits, TLC, Json

CONSTANTS NBytes,      \* buffer size in bytes
          MaxStart,    \* largest linear start bit of an enumerated field
          MaxW,        \* largest enumerated width
          ExhW         \* widths up to ExhW get every value, wider ones boundary values

VARIABLES layout, base, vals, buf, written

vars == <<layout, base, vals, buf, written>>

Fld(s, w) == [b |-> s \div 8, m |-> 7 - (s % 8), w |-> w]

Singles == {Fld(s, w) : s \in 0..MaxStart, w \in 1..MaxW} 

AllFields == {f \in Singles : InBuf(f, NBytes)}

\* a small pool for multi-field layouts: aligned and unaligned, adjacent and apart
Pool == {f \in AllFields : f.w \in {1, 3, 8, 11} /\ Start(f) \in {0, 3, 5, 8, 12}}

Layouts == {<<f>> : f \in AllFields}
      \cup {<<f, g>> : f \in Pool, g \in Pool} 
      \cup {<<f, g, h>> : f \in {x \in Pool : x.w = 3}, g \in {x \in Pool : x.w \in {1, 8}}, h \in {x \in Pool : x.w = 11}}

GoodLayouts == {L \in Layouts : Disjoint(L)}



AllOnes(w) == Strip([j \in 1..((w + 7) \div 8) |->
                  IF j = 1 /\ w % 8 # 0 THEN Pow2(w % 8) - 1 ELSE 255])

\* boundary values of a w-bit field
Boundary(w) == { <<>>, AllOnes(w), <<1>>, NumOfNat(Pow2(w - 1)),
                 Strip(IntToBA(<<170, 170, 170>>, 3)) } 

ValuesOf(f, exh) ==
    IF f.w <= exh THEN {NumOfNat(x) : x \in 0..(Pow2(f.w) - 1)}
    ELSE {v \in Boundary(f.w) : Fits(v, f.w)}

Patterns == {0, 255, 165}

RECURSIVE ClearAll(_, _)
ClearAll(b, L) == IF L = <<>> THEN b ELSE ClearAll(Clear(b, L[1]), Tail(L))

RECURSIVE ValSeqs(_, _)
ValSeqs(L, exh) == IF L = <<>> THEN {<<>>}
                   ELSE {<<v>> \o r : v \in ValuesOf(L[1], exh), r \in ValSeqs(Tail(L), exh)}

Init == /\ layout \in GoodLayouts
        /\ \E p \in Patterns : base = ClearAll([i \in 1..NBytes |-> p], layout)
        /\ vals \in ValSeqs(layout, IF Len(layout) = 1 THEN ExhW ELSE 2)
        /\ buf = base
        /\ written = {}

Write(i) == /\ i \notin written
            /\ buf' = Put(buf, layout[i], vals[i])
            /\ written' = written \cup {i}
            /\ UNCHANGED <<layout, base, vals>>

Export == /\ written = DOMAIN layout
          /\ PrintT(<<"CASE", ToJson([n |-> NBytes,
                                      layout |-> [i \in DOMAIN layout |-> <<Start(layout[i]), layout[i].w>>],
                                      vals |-> vals, base |-> base, final |-> buf])>>)
          /\ UNCHANGED vars

WriteSome == \E i \in DOMAIN layout : Write(i)

Next == WriteSome \/ Export

Spec == Init /\ [][Next]_vars

(* ---- the laws of C10 as invariants ----------------------------------- *)

Covered == UNION {FieldPos(layout[i]) : i \in written}

\* decoding after encoding returns the value (and reads exactly the field)
Readback == \A i \in written : NumEq(Get(buf, layout[i]), vals[i])

\* fields not yet written still read zero; bits outside every field keep the background
Untouched == /\ \A i \in DOMAIN layout \ written : Get(buf, layout[i]) = <<>>
             /\ \A p \in 0..(8 * NBytes - 1) : p \notin Covered => LinBit(buf, p) = LinBit(base, p)

\* the buffer is a function of the set of fields written, not of the order

ConfluentInv ==
    buf = PutAll(base, [i \in 1..Len(layout) |-> layout[i]],
                 [i \in 1..Len(layout) |-> IF i \in written THEN vals[i] ELSE <<>>])

IsBytes == IsBuf(buf) /\ Len(buf) = NBytes

\* integer <-> byte array laws on the same value pool
IntLaws == \A i \in DOMAIN vals : \A k \in 1..4 :
              /\ LawIntBA(vals[i], k)
              /\ LawBAInt(IntToBA(vals[i], k))
=============================================================================
