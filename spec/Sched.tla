-------------------------------- MODULE Sched --------------------------------
(***************************************************************************)
(* C09, schedules: the environment that interleaves threads.  Thread t has   *)
(* N[t] yield points (source lines executed inside the library); exactly one  *)
(* thread runs at a time; a context switch while the running thread is not    *)
(* finished is a preemption, and at most P preemptions happen.  Macro-step    *)
(* RunTo(t, k): thread t runs until it has executed k yield points.  Every    *)
(* terminal state is one schedule, exported as its list of segments.          *)
(***************************************************************************)
EXTENDS Naturals, Sequences, FiniteSets, TLC, Json

CONSTANTS N,        \* sequence: yield points per thread
          P,        \* preemption bound
          Grid      \* preemption points considered: every Grid-th yield point (1 = all)

Threads == 1..Len(N)
VARIABLES pc, pre, segs, last
vars == <<pc, pre, segs, last>>

Init == pc = [t \in Threads |-> 0] /\ pre = 0 /\ segs = <<>> /\ last = 0

Finished(t) == IF t = 0 THEN TRUE ELSE pc[t] = N[t]

\* run t to completion (never counts as a preemption of t)
RunAll(t) == /\ ~Finished(t) /\ t # last
             /\ (Finished(last) \/ pre < P)
             /\ pre' = IF ~Finished(last) THEN pre + 1 ELSE pre
             /\ pc' = [pc EXCEPT ![t] = N[t]]
             /\ segs' = Append(segs, <<t, N[t]>>) /\ last' = t
\* run t up to yield point k and stop there: it will have to be preempted
RunTo(t, k) == /\ ~Finished(t) /\ t # last /\ k > pc[t] /\ k < N[t] /\ k % Grid = 0
               /\ (Finished(last) \/ pre < P)
               /\ LET used == IF ~Finished(last) THEN pre + 1 ELSE pre IN
                  /\ used < P              \* stopping t short needs one more preemption later
                  /\ pre' = used
               /\ pc' = [pc EXCEPT ![t] = k]
               /\ segs' = Append(segs, <<t, k>>) /\ last' = t

Next == \E t \in Threads : RunAll(t) \/ \E k \in 1..(N[t] - 1) : RunTo(t, k)
Spec == Init /\ [][Next]_vars

AllDone == \A t \in Threads : Finished(t)
Export == AllDone /\ PrintT(<<"SCHED", ToJson(segs)>>) /\ UNCHANGED vars
MCSpec == Init /\ [][Next \/ Export]_vars

Bounded == pre <= P
OneRuns == \A i \in 1..(Len(segs) - 1) : segs[i][1] # segs[i + 1][1]
=============================================================================
