----------------------------- MODULE MC_Opcodes -----------------------------
(***************************************************************************)
(* Self-consistency of the T10 opcode transcription and export of one case  *)
(* per (command set, standard name): the value and the CDB length a         *)
(* conformant initiator must use.  The walker visits every entry once.      *)
(***************************************************************************)
EXTENDS T10Opcodes, Json

VARIABLES set, name, done
vars == <<set, name, done>>

Init == /\ set \in Sets
        /\ name \in DOMAIN Op[set]
        /\ done = FALSE

Export == /\ ~done
          /\ PrintT(<<"CASE", ToJson([set |-> set, name |-> name, value |-> Op[set][name],
                                      len |-> GroupLen(Op[set][name]),
                                      sa |-> NamedSA(name)])>>)
          /\ done' = TRUE
          /\ UNCHANGED <<set, name>>

\* the generic per-set entries the facade resolves by their hexadecimal suffix
ExportGeneric == /\ ~done
                 /\ name = "INQUIRY"        \* once per set
                 /\ \A c \in {\h9E, \hA3} :
                       PrintT(<<"GENERIC", ToJson([set |-> set, name |-> GenericName(set, c), value |-> c,
                                                   sa |-> RequiredSA(c)])>>)
                 /\ UNCHANGED vars

Next == Export \/ ExportGeneric
Spec == Init /\ [][Next]_vars

SameNameSameValue == \A t \in Sets : name \in DOMAIN Op[t] => Op[t][name] = Op[set][name]
NamedHasFixedLength == GroupLen(Op[set][name]) \in {6, 10, 12, 16}
TablesSane == Consistent /\ AllBytes /\ SABytes /\ SAUnique /\ GroupTotal
=============================================================================
