----------------------------- MODULE MC_Opcodes -----------------------------
(***************************************************************************)
(* Self-consistency of the T10 opcode transcription and export of one case  *)
(* per (command set, standard name): the value and the CDB length a         *)
(* conformant initiator must use.  The walker visits every entry once.      *)
(***************************************************************************)
EXTENDS T10Opcodes, Json

VARIABLES set, name, done
vars == <<set, name, done>>

Init == /\ set \in Sets
        /\ name \in DOMAIN Op[set]
        /\ done = FALSE

Export == /\ ~done
          /\ PrintT(<<"CASE", ToJson([set |-> set, name |-> name, value |-> Op[set][name],
                                      len |-> GroupLen(Op[set][name]),
                                      sa |-> RequiredSA(Op[set][name])])>>)
          /\ done' = TRUE
          /\ UNCHANGED <<set, name>>

Next == Export
Spec == Init /\ [][Next]_vars

SameNameSameValue == \A t \in Sets : name \in DOMAIN Op[t] => Op[t][name] = Op[set][name]
NamedHasFixedLength == GroupLen(Op[set][name]) \in {6, 10, 12, 16}
TablesSane == Consistent /\ AllBytes /\ SABytes /\ SAUnique /\ GroupTotal
=============================================================================
