---------------------------- MODULE RefuseRules ----------------------------
(***************************************************************************)
(* C17: invalid requests are refused before anything is sent.               *)
(*                                                                          *)
(* A request goes through the phases                                         *)
(*     idle -> validated -> (refused | built -> sent -> returned)            *)
(* `execs` counts commands handed to the device, `obj` says whether a         *)
(* command object exists.  The request kinds are the ones the property        *)
(* lists; Verdict(req) is what the standards / the documented API demand.     *)
(***************************************************************************)
EXTENDS T10Opcodes, Sequences

\* XCOPY descriptor type codes: CSCD E0h..EAh (SPC-4) and segment 00h..15h are assigned;
\* implemented by the library: CSCD E4h, segments 00h 01h 02h 0Bh 0Ch 0Dh
CscdAssigned == \hE0..\hEA
CscdImplemented == {\hE4}
SegAssigned == \h00..\h15
SegImplemented == {\h00, \h01, \h02, \h0B, \h0C, \h0D}

Prior == <<\h00, \h28, \h88, \hA0>>
Kinds == {"facade_bs0", "facade_bs_reset", "opcode_reuse", "opcode_ctor", "opcode_len", "prin_sa", "xcopy_cscd_key", "xcopy_seg_key", "xcopy_cscd_type",
          "xcopy_seg_type", "xcopy_lu_id_type", "tid_isid_without_format", "tid_format_without_isid",
          "tid_consistent"}

\* type codes whose assignment differs between SPC-4 and SPC-5 drafts (or that this
\* transcription is not sure of): any of the two specific refusals is accepted
CscdEither == {\hEB, \hEC, \hFE}
SegEither == \h10..\h19 \cup {\hBE, \hBF}

\* facade block commands called on a facade without a block size: v = 0..7 are READ(10/12/16),
\* WRITE(10/12/16), WRITE SAME(10), WRITE SAME(16); v = 8 is WRITE SAME(16) with NDOB (no block needed)
\* the error a request owes its caller, "" = accepted, "either" = ValueError or NotImplementedError
\* (the property demands a specific refusal of unknown codes; which of the two errors a known but
\* unimplemented code gets is the library's choice)
Verdict(r) ==
    \* facade_bs_reset: the facade knew a block size (512) and the caller then set it to 0 (s.blocksize = 0): the
    \* same verdicts as for a facade that never had one
    CASE r.k \in {"facade_bs0", "facade_bs_reset"} -> IF r.v = 8 THEN "" ELSE "MissingBlocksizeException"
      [] r.k \in {"opcode_ctor", "opcode_len"} ->
            IF GroupLen(r.v) = Refused THEN "OpcodeException" ELSE ""
      \* one OpCode object used before with the valid code Prior[v \div 256], then re-pointed
      \* (public value setter) to v % 256: only the current code counts
      [] r.k = "opcode_reuse" ->
            IF GroupLen(r.v % 256) = Refused THEN "OpcodeException" ELSE ""
      [] r.k = "prin_sa" -> IF r.v \in 0..3 THEN "" ELSE "ValueError"
      [] r.k \in {"xcopy_cscd_key", "xcopy_seg_key"} -> IF r.v = 1 THEN "ValueError" ELSE ""   \* v = 1: one unknown key
      [] r.k = "xcopy_cscd_type" ->
            IF r.v \in CscdImplemented THEN ""
            ELSE IF r.v \in CscdEither \cup CscdAssigned THEN "either"     \* known but not implemented
            ELSE "ValueError"
      [] r.k = "xcopy_seg_type" ->
            IF r.v \in SegImplemented THEN ""
            ELSE IF r.v \in SegEither \cup SegAssigned THEN "either"       \* known but not implemented
            ELSE "ValueError"
      [] r.k = "xcopy_lu_id_type" -> IF r.v = 0 THEN "" ELSE "ValueError"
      [] r.k \in {"tid_isid_without_format", "tid_format_without_isid"} -> "ValueError"
      [] r.k = "tid_consistent" -> ""

=============================================================================
