---- MODULE EnumSM_TTrace_1790979801 ----
EXTENDS Sequences, TLCExt, Toolbox, EnumSM, Naturals, TLC

_expression ==
    LET EnumSM_TEExpression == INSTANCE EnumSM_TEExpression
    IN EnumSM_TEExpression!expression
----

_trace ==
    LET EnumSM_TETrace == INSTANCE EnumSM_TETrace
    IN EnumSM_TETrace!trace
----

_inv ==
    ~(
        TLCGet("level") = Len(_TETrace)
        /\
        dm = ([E1 |-> <<>>, E2 |-> <<>>])
        /\
        en = ([E1 |-> <<>>, E2 |-> <<>>])
        /\
        out = (<<"get", "E1", 0>>)
    )
----

_init ==
    /\ out = _TETrace[1].out
    /\ dm = _TETrace[1].dm
    /\ en = _TETrace[1].en
----

_next ==
    /\ \E i,j \in DOMAIN _TETrace:
        /\ \/ /\ j = i + 1
              /\ i = TLCGet("level")
        /\ out  = _TETrace[i].out
        /\ out' = _TETrace[j].out
        /\ dm  = _TETrace[i].dm
        /\ dm' = _TETrace[j].dm
        /\ en  = _TETrace[i].en
        /\ en' = _TETrace[j].en

\* Uncomment the ASSUME below to write the states of the error trace
\* to the given file in Json format. Note that you can pass any tuple
\* to `JsonSerialize`. For example, a sub-sequence of _TETrace.
    \* ASSUME
    \*     LET J == INSTANCE Json
    \*         IN J!JsonSerialize("EnumSM_TTrace_1790979801.json", _TETrace)

=============================================================================

 Note that you can extract this module `EnumSM_TEExpression`
  to a dedicated file to reuse `expression` (the module in the 
  dedicated `EnumSM_TEExpression.tla` file takes precedence 
  over the module `EnumSM_TEExpression` below).

---- MODULE EnumSM_TEExpression ----
EXTENDS Sequences, TLCExt, Toolbox, EnumSM, Naturals, TLC

expression == 
    [
        \* To hide variables of the `EnumSM` spec from the error trace,
        \* remove the variables below.  The trace will be written in the order
        \* of the fields of this record.
        out |-> out
        ,dm |-> dm
        ,en |-> en
        
        \* Put additional constant-, state-, and action-level expressions here:
        \* ,_stateNumber |-> _TEPosition
        \* ,_outUnchanged |-> out = out'
        
        \* Format the `out` variable as Json value.
        \* ,_outJson |->
        \*     LET J == INSTANCE Json
        \*     IN J!ToJson(out)
        
        \* Lastly, you may build expressions over arbitrary sets of states by
        \* leveraging the _TETrace operator.  For example, this is how to
        \* count the number of times a spec variable changed up to the current
        \* state in the trace.
        \* ,_outModCount |->
        \*     LET F[s \in DOMAIN _TETrace] ==
        \*         IF s = 1 THEN 0
        \*         ELSE IF _TETrace[s].out # _TETrace[s-1].out
        \*             THEN 1 + F[s-1] ELSE F[s-1]
        \*     IN F[_TEPosition - 1]
    ]

=============================================================================



Parsing and semantic processing can take forever if the trace below is long.
 In this case, it is advised to uncomment the module below to deserialize the
 trace from a generated binary file.

\*
\*---- MODULE EnumSM_TETrace ----
\*EXTENDS IOUtils, EnumSM, TLC
\*
\*trace == IODeserialize("EnumSM_TTrace_1790979801.bin", TRUE)
\*
\*=============================================================================
\*

---- MODULE EnumSM_TETrace ----
EXTENDS EnumSM, TLC

trace == 
    <<
    ([dm |-> [E1 |-> <<>>, E2 |-> <<>>],en |-> [E1 |-> <<>>, E2 |-> <<>>],out |-> <<"init">>]),
    ([dm |-> [E1 |-> <<>>, E2 |-> <<>>],en |-> [E1 |-> <<>>, E2 |-> <<>>],out |-> <<"get", "E1", 0>>])
    >>
----


=============================================================================

---- CONFIG EnumSM_TTrace_1790979801 ----
CONSTANTS
    Enums = { "E1" , "E2" }
    Names = { "a" , "b" }
    NV = 4

INVARIANT
    _inv

CHECK_DEADLOCK
    \* CHECK_DEADLOCK off because of PROPERTY or INVARIANT above.
    FALSE

INIT
    _init

NEXT
    _next

CONSTANT
    _TETrace <- _trace

ALIAS
    _expression
=============================================================================
\* Generated on Fri Oct 02 22:23:23 UTC 2026