SPECIFICATION Spec
CONSTANTS
  MaxLen = 1000000
  Tr = "iscsi"
INVARIANT TypeOK
INVARIANT UnchangeableKept
PROPERTY ProtectedMediumKept
PROPERTY RejectedChangesNothing
PROPERTY SavedOnlyBySp
VIEW CoreView
CHECK_DEADLOCK FALSE
