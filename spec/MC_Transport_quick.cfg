SPECIFICATION MCSpec
CONSTANTS
  Cmds = {"c1", "c2"}
  Statuses = {0, 1, 2, 3, 4, 8, 16, 24, 34, 40, 48, 64, 128, 255}
INVARIANT NoSilentFailure
INVARIANT SenseFaithful
INVARIANT NamedStatusNamedError
INVARIANT GoodReturns
INVARIANT RawOnlyOnRequest
CHECK_DEADLOCK FALSE
