SPECIFICATION SpecCore
CONSTANTS
  MaxLen = 1000000
  Tr = "iscsi"
INVARIANT TypeOK
INVARIANT MediaConserved
INVARIANT SourceValid
INVARIANT OncePerCall
INVARIANT ReportsConsistent
PROPERTY RejectedChangesNothing
VIEW CoreView
CHECK_DEADLOCK FALSE
