----------------------------- MODULE TargetRules -----------------------------
(***************************************************************************)
(* C12: a standards-conformant block target.  It sees only BYTES: it finds    *)
(* the command by its operation code and reads LBA / lengths / flags off the   *)
(* CDB with the field positions of T10Cdb.tla (TargetDecode), independent of   *)
(* the library.  The disk is a function from LBA (a Num) to a block (bs bytes); *)
(* blocks never written hold a pattern derived from their LBA, so that reading  *)
(* a wrong LBA (truncation, aliasing) is visible.                               *)
(***************************************************************************)
EXTENDS T10Cdb

ClassOfOp(op) ==
    CASE op = \h28 -> "Read10" [] op = \hA8 -> "Read12" [] op = \h88 -> "Read16"
      [] op = \h2A -> "Write10" [] op = \hAA -> "Write12" [] op = \h8A -> "Write16"
      [] op = \h41 -> "WriteSame10" [] op = \h93 -> "WriteSame16"
      [] op = \h35 -> "SynchronizeCache10" [] op = \h91 -> "SynchronizeCache16"
      [] op = \h25 -> "ReadCapacity10" [] op = \h9E -> "ReadCapacity16" [] op = \h12 -> "Inquiry"
      [] op = \h00 -> "TestUnitReady" [] OTHER -> ""

\* LBA + k as a Num (k small): little adder on byte sequences
RECURSIVE AddK(_, _)
AddK(v, k) == IF k = 0 THEN v
              ELSE IF v = <<>> THEN NumOfNat(k)
              ELSE LET last == v[Len(v)] + k IN
                   IF last < 256 THEN [v EXCEPT ![Len(v)] = last]
                   ELSE Append(AddK(SubSeq(v, 1, Len(v) - 1), last \div 256), last % 256)
Lba(v, k) == Strip(AddK(Strip(v), k))

\* content of a block that was never written: depends on every byte of its LBA
RECURSIVE SumW(_, _)
SumW(v, i) == IF v = <<>> THEN 0 ELSE (v[1] * i + SumW(Tail(v), i + 1)) % 251
Virgin(lba, bs) == [j \in 1..bs |-> (SumW(Strip(lba), 1) + 7 * j) % 256]

BlockAt(disk, lba, bs) == IF Strip(lba) \in DOMAIN disk THEN disk[Strip(lba)] ELSE Virgin(lba, bs)
RECURSIVE ReadBlocks(_, _, _, _)
ReadBlocks(disk, lba, n, bs) == IF n = 0 THEN <<>> ELSE BlockAt(disk, lba, bs) \o ReadBlocks(disk, Lba(lba, 1), n - 1, bs)

\* disk after writing n consecutive blocks taken from data (n * bs bytes) starting at lba
RECURSIVE WriteBlocks(_, _, _, _, _)
WriteBlocks(disk, lba, n, bs, data) ==
    IF n = 0 THEN disk
    ELSE LET k == Strip(lba)
             d1 == [x \in DOMAIN disk \cup {k} |-> IF x = k THEN SubSeq(data, 1, bs) ELSE disk[x]] IN
         WriteBlocks(d1, Lba(lba, 1), n - 1, bs, SubSeq(data, bs + 1, Len(data)))
RECURSIVE Repeat(_, _)
Repeat(blk, n) == IF n = 0 THEN <<>> ELSE blk \o Repeat(blk, n - 1)
=============================================================================
