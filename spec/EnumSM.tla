------------------------------- MODULE EnumSM -------------------------------
(* several enumerations alive at once; every operation names one of them *)
EXTENDS EnumRules

CONSTANTS Enums, Names, NV

VARIABLES en, dm, out       \* en: sequence model, dm: dictionary model, out: last result
vars == <<en, dm, out>>

Init == en = [e \in Enums |-> <<>>] /\ dm = [e \in Enums |-> [x \in {} |-> 0]] /\ out = [op |-> "init", e |-> "", refused |-> FALSE]

Add(e, n, v) ==
    IF Has(en[e], n)
    THEN out' = [op |-> "add", e |-> e, refused |-> TRUE] /\ UNCHANGED <<en, dm>>            \* refused, nothing changes
    ELSE /\ en' = [en EXCEPT ![e] = AddTo(@, n, v)]
         /\ dm' = [dm EXCEPT ![e] = DAdd(@, n, v)]
         /\ out' = [op |-> "add", e |-> e, refused |-> FALSE]
Remove(e, n) ==
    IF ~Has(en[e], n)
    THEN out' = [op |-> "remove", e |-> e, refused |-> TRUE] /\ UNCHANGED <<en, dm>>
    ELSE /\ en' = [en EXCEPT ![e] = RemoveFrom(@, n)]
         /\ dm' = [dm EXCEPT ![e] = DRemove(@, n)]
         /\ out' = [op |-> "remove", e |-> e, refused |-> FALSE]
Get(e, n) == /\ out' = [op |-> "get", e |-> e, refused |-> ~Has(en[e], n)] /\ UNCHANGED <<en, dm>>
RevOp(e, v) == /\ out' = [op |-> "rev", e |-> e, refused |-> FALSE] /\ UNCHANGED <<en, dm>>
Keys(e) == /\ out' = [op |-> "keys", e |-> e, refused |-> FALSE] /\ UNCHANGED <<en, dm>>

Next == \E e \in Enums :
           \/ \E n \in Names, v \in 1..NV : Add(e, n, v)
           \/ \E n \in Names : Remove(e, n) \/ Get(e, n)
           \/ \E v \in 1..NV : RevOp(e, v)
           \/ Keys(e)
Spec == Init /\ [][Next]_vars

\* names, values and reverse lookup agree with an ordinary dictionary that underwent the same operations
Agreement == \A e \in Enums :
                /\ NamesOf(en[e]) = DOMAIN dm[e]
                /\ \A n \in DOMAIN dm[e] : ValueOf(en[e], n) = dm[e][n]
                /\ Len(en[e]) = Cardinality(DOMAIN dm[e])                   \* no name twice
RevSound == \A e \in Enums : \A v \in 1..NV :
                LET r == Rev(en[e], v) IN
                IF r = "" THEN \A n \in DOMAIN dm[e] : ~EqV(dm[e][n], v)
                ELSE r \in DOMAIN dm[e] /\ EqV(dm[e][r], v)
\* one enumeration never affects another; refusals leave everything unchanged
NoCrossTalk == [][\A e \in Enums : (out'.e # e) => (en'[e] = en[e])]_vars
RefusalsChangeNothing == [][out'.refused => (en' = en /\ dm' = dm)]_vars
=============================================================================
