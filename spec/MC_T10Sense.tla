----------------------------- MODULE MC_T10Sense -----------------------------
(* Self-check of the sense transcription and export of what the harness must ask about every
   case: for each (format, key, curated code) the normalised texts it has to find in str(exc). *)
EXTENDS T10Sense, Json
VARIABLES rc, key, code, done
vars == <<rc, key, code, done>>
Init == rc \in {112, 113, 114, 115} /\ key \in 0..15 /\ code \in {t[1] : t \in Texts} /\ done = FALSE
Buf == IF Format(rc) = "fixed"
       THEN <<rc, 0, key, 0, 0, 0, 0, 10, 0, 0, 0, 0, code \div 256, code % 256, 0, 0, 0, 0>>
       ELSE <<rc, key, code \div 256, code % 256, 0, 0, 0, 0>>
Export == /\ ~done
          /\ PrintT(<<"CASE", ToJson([bytes |-> Buf, key |-> key, asc |-> code \div 256, ascq |-> code % 256,
                                      text |-> TextOf(code), keyname |-> KeyNames[key + 1]])>>)
          /\ done' = TRUE /\ UNCHANGED <<rc, key, code>>
Spec == Init /\ [][Export]_vars
\* the positions defined above recover what was put into the buffer
PositionsRoundTrip == SenseKey(Buf) = key /\ Asc(Buf) = code \div 256 /\ Ascq(Buf) = code % 256 /\ RespCode(Buf) = rc
TableIsFunction == \A s, t \in Texts : s[1] = t[1] => s = t
=============================================================================
