------------------------------- MODULE Handle -------------------------------
(***************************************************************************)
(* C15: commands never go through a stale device handle; handles are        *)
(* released.  Only the RELATION between the node at the device path and the  *)
(* inode the current handle was opened on matters, which makes the machine   *)
(* finite; TLC therefore covers histories of unbounded length.               *)
(*                                                                          *)
(* State record s:                                                           *)
(*   node    "present" | "absent"    is there a node at the path             *)
(*   fresh   the library's handle refers to the node now at the path         *)
(*   handle  "open" | "closed"       the library's current handle            *)
(*   detect  replug detection enabled                                        *)
(*   armed   the next close() of a handle will fail (fault injection)        *)
(*   oarmed  the next open() of the node will fail (fault injection); a       *)
(*           failed re-open leaves handle = "none": no OS handle, not closed   *)
(*   live    number of OS handles the library holds open (0..2)              *)
(*   sent    through which handle the last execute sent: none/current/stale  *)
(*   out     "ok" | "error" outcome of the last library call                 *)
(*   mode    "ro" | "rw"   the access the caller asked for                    *)
(*   hmode   the access mode of the library's current handle: a handle       *)
(*           re-opened after a replug is opened as the first one was          *)
(* Succ(s, a) is the set of states the library/environment may move to.      *)
(***************************************************************************)
EXTENDS Naturals, FiniteSets, TLC

EnvActs == {"replug", "unplug", "plug", "arm", "armopen"}
LibActs == {"exec", "close", "exit_ok", "exit_exc"}
Acts == EnvActs \cup LibActs

Succ(s, a) ==
    CASE a = "replug" ->        \* node replaced by a new one (new inode)
            IF s.node = "present" THEN {[s EXCEPT !.fresh = FALSE]} ELSE {}
      [] a = "unplug" -> IF s.node = "present" THEN {[s EXCEPT !.node = "absent", !.fresh = FALSE]} ELSE {}
      [] a = "plug"   -> IF s.node = "absent" THEN {[s EXCEPT !.node = "present", !.fresh = FALSE]} ELSE {}
      [] a = "arm"    -> IF ~s.armed /\ s.handle = "open" THEN {[s EXCEPT !.armed = TRUE]} ELSE {}
      [] a = "armopen" -> IF s.detect /\ ~s.oarmed /\ s.handle # "closed" THEN {[s EXCEPT !.oarmed = TRUE]} ELSE {}
      [] a = "exec" ->
            IF s.handle = "closed" THEN {}
            ELSE IF ~s.detect THEN
                \* detection off: the original handle is kept, whatever happened to the node
                {[s EXCEPT !.sent = IF s.fresh THEN "current" ELSE "stale", !.out = "ok"]}
            ELSE IF s.node = "absent" THEN
                \* a vanished node is an error, nothing is sent, the old handle is not used
                {[s EXCEPT !.sent = "none", !.out = "error"]}
            ELSE IF s.fresh /\ s.handle = "open" THEN {[s EXCEPT !.sent = "current", !.out = "ok"]}
            ELSE
                \* replaced (or the previous re-open failed): close what is there, open a fresh handle, then
                \* send.  If the OPEN fails nothing is sent, no handle is left (handle = "none") and the next
                \* execute tries again.  If only the close fails the error may propagate (nothing sent) or be
                \* swallowed (sent through the fresh handle) - in both cases a fresh handle is open afterwards
                IF s.oarmed
                THEN {[s EXCEPT !.handle = "none", !.live = 0, !.armed = FALSE, !.oarmed = FALSE, !.sent = "none", !.out = "error"]}
                ELSE IF s.armed
                THEN {[s EXCEPT !.fresh = TRUE, !.armed = FALSE, !.sent = "none", !.out = "error"],
                      [s EXCEPT !.fresh = TRUE, !.armed = FALSE, !.sent = "current", !.out = "ok"]}
                ELSE {[s EXCEPT !.fresh = TRUE, !.handle = "open", !.live = 1, !.sent = "current", !.out = "ok"]}
      [] a \in {"close", "exit_ok", "exit_exc"} ->
            IF s.handle = "closed" THEN {}
            ELSE {[s EXCEPT !.handle = "closed", !.live = 0, !.sent = "none", !.armed = FALSE, !.oarmed = FALSE,
                            !.out = IF s.armed THEN "error" ELSE "ok"]}

VARIABLE s

Init == s \in {[node |-> "present", fresh |-> TRUE, handle |-> "open", detect |-> d, armed |-> FALSE,
                live |-> 1, sent |-> "none", out |-> "ok", act |-> "open", mode |-> m, hmode |-> m, oarmed |-> FALSE] : d \in BOOLEAN, m \in {"ro", "rw"}}
\* `act` remembers which action led to the state, so that properties of "the last execute"
\* can be stated as state invariants
Step(a) == s' \in {[t EXCEPT !.act = a] : t \in Succ(s, a)}
Replug == Step("replug")
Unplug == Step("unplug")
Plug == Step("plug")
Arm == Step("arm")
ArmOpen == Step("armopen")
Exec == Step("exec")
Close == Step("close")
ExitOk == Step("exit_ok")
ExitExc == Step("exit_exc")
Next == Replug \/ Unplug \/ Plug \/ Arm \/ ArmOpen \/ Exec \/ Close \/ ExitOk \/ ExitExc
Spec == Init /\ [][Next]_s

NoStaleSend == s.sent = "stale" => ~s.detect
VanishedIsError == s.act = "exec" /\ s.detect /\ s.node = "absent" => s.out = "error" /\ s.sent = "none"
OneHandle == s.live <= 1 /\ (s.handle = "open" <=> s.live = 1)
Released == s.handle = "closed" => s.live = 0
\* with detection on, a successful execute went through a handle of the node now at the path,
\* and that handle is the one the library keeps
FreshAfterExec == s.act = "exec" /\ s.detect /\ s.out = "ok" => s.fresh /\ s.sent = "current"
\* with detection off the handle is never exchanged
DetectionOffKeepsHandle == s.act = "exec" /\ ~s.detect => s.out = "ok" /\ s.sent \in {"current", "stale"}
\* closing a stale handle that fails still leaves a fresh handle open
ReopenedEvenIfCloseFails == s.act = "exec" /\ s.detect /\ s.node = "present" =>
                                (s.fresh /\ s.handle = "open") \/ (s.out = "error" /\ s.handle = "none" /\ s.sent = "none")
\* a failed re-open is an error that sends nothing, and nothing is ever sent without a handle
NothingWithoutHandle == s.handle = "none" => s.live = 0 /\ s.sent = "none" /\ ~s.fresh
\* every handle the library holds was opened with the access the caller asked for (no successor changes hmode)
ReopenedAsRequested == s.hmode = s.mode
=============================================================================
