SPECIFICATION Spec
CONSTANTS
  MaxLen = 30
  Tr = "iscsi"
INVARIANT TypeOK
INVARIANT RefusedSendsNothing
PROPERTY SetFollowsAttach
CHECK_DEADLOCK FALSE
