---------------------------- MODULE Trace_Opcodes ----------------------------
(***************************************************************************)
(* Code -> spec for C14.  The harness walks the library's five opcode       *)
(* tables, every service-action table, the status table, and calls the      *)
(* CDB-length routine for all 256 operation codes; each observation is one  *)
(* event.  The trace state remembers the first value seen for every name,   *)
(* so "same name, same value in every set" is judged for every name, also   *)
(* for names this specification has no T10 value for.                       *)
(***************************************************************************)
EXTENDS T10Opcodes, Json, IOUtils

Trace == JsonDeserialize(IOEnv.TRACE_FILE)

VARIABLES l, seen      \* seen: name -> value first observed (opcode names only)

Judge(e) ==
    CASE e.ev = "Lookup" ->
           IF e.name \in DOMAIN seen /\ seen[e.name] # e.value
             THEN <<"SameNameSameValue", ToString(seen[e.name])>>
           ELSE IF e.name \in DOMAIN Op[e.set]
             THEN IF Op[e.set][e.name] = e.value THEN <<>> ELSE <<"T10Value", ToString(Op[e.set][e.name])>>
           ELSE IF Known(e.name)          \* a standard name of another set: still that value
             THEN IF ValueOf(e.name) = e.value THEN <<>> ELSE <<"T10Value", ToString(ValueOf(e.name))>>
           ELSE IF \E c \in GenericCodes : e.name = GenericName(e.set, c)
             THEN IF e.name = GenericName(e.set, e.value) THEN <<>> ELSE <<"GenericEntryValue", e.name>>
           ELSE <<"Unjudged", e.name>>
      [] e.ev = "SA" ->
           IF SAKnown(e.name)
             THEN IF SAValue(e.name) = e.value THEN <<>> ELSE <<"T10ServiceAction", ToString(SAValue(e.name))>>
           ELSE <<"Unjudged", e.name>>
      [] e.ev = "Status" ->
           IF e.name \in DOMAIN Status
             THEN IF Status[e.name] = e.value THEN <<>> ELSE <<"T10Status", ToString(Status[e.name])>>
           ELSE <<"Unjudged", e.name>>
      [] e.ev = "CdbLen" ->
           IF e.len = GroupLen(e.op) THEN <<>> ELSE <<"GroupLen", ToString(GroupLen(e.op))>>
      [] OTHER -> <<"UnknownEvent", "">>

Init == l = 1 /\ seen = [x \in {} |-> 0]

Step == /\ l <= Len(Trace)
        /\ LET e == Trace[l]  v == Judge(e) IN
             /\ \/ v = <<>>
                \/ /\ v # <<>>
                   /\ PrintT(<<"VERDICT", ToJson([i |-> l, clause |-> v[1], detail |-> v[2]])>>)
             /\ seen' = IF e.ev = "Lookup" /\ e.name \notin DOMAIN seen
                          THEN [x \in DOMAIN seen \cup {e.name} |-> IF x = e.name THEN e.value ELSE seen[x]]
                          ELSE seen
        /\ l' = l + 1

Finish == /\ l = Len(Trace) + 1
          /\ PrintT(<<"CONSUMED", ToJson([n |-> l - 1])>>)
          /\ UNCHANGED <<l, seen>>

Next == Step \/ Finish
Spec == Init /\ [][Next]_<<l, seen>>
=============================================================================
