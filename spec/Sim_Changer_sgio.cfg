SPECIFICATION Spec
CONSTANTS
  MaxLen = 25
  Tr = "sgio"
INVARIANT TypeOK
INVARIANT MediaConserved
INVARIANT SourceValid
INVARIANT OncePerCall
INVARIANT ReportsConsistent
PROPERTY RejectedChangesNothing
CHECK_DEADLOCK FALSE
