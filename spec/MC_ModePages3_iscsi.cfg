SPECIFICATION Spec
CONSTANTS
  MaxLen = 3
  Tr = "iscsi"
INVARIANT TypeOK
INVARIANT UnchangeableKept
PROPERTY ProtectedMediumKept
PROPERTY RejectedChangesNothing
PROPERTY SavedOnlyBySp
CHECK_DEADLOCK FALSE
