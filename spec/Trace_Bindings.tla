--------------------------- MODULE Trace_Bindings ---------------------------
(* events of one interpreter per binding configuration:
     [ev |-> "import", cfg, module, ok]
     [ev |-> "codec", cfg, what, ok]          builds / encodes / decodes / facade over a duck-typed device
     [ev |-> "init", via, cfg, dev, rw, ini, class, exc, opens, connects, url, ctx, touched]
       via = "init_device" | "SCSIDevice" | "ISCSIDevice" (the class constructed directly);
       reopens = what open() was given when the caller closed the device and opened it again;
       touched = number of file-system accesses (open, stat, ...) made during the call            *)
EXTENDS BindingsRules, Json, IOUtils
Trace == JsonDeserialize(IOEnv.TRACE_FILE)
NoStrings == {}
VARIABLE l
Judge(e) ==
    CASE e.ev = "import" -> IF e.ok THEN {} ELSE {<<"ImportsAlways", e.module>>}
      [] e.ev = "codec"  -> IF e.ok THEN {} ELSE {<<"CodecWithoutBindings", e.what>>}
      [] e.ev = "init" ->
           LET x == ExpectVia(e.via, e.cfg, e.dev, e.rw, e.ini) IN
           (IF x.exc # "" /\ (e.opens # <<>> \/ e.connects # 0 \/ e.touched # 0 \/ e.url # <<>> \/ e.ctx # <<>>) THEN {<<"MissingRefusedBeforeOpen", "">>} ELSE {})
           \cup (IF e.exc # x.exc \/ e.class # x.class THEN {<<"RightDeviceOrRefusal", ToJson([class |-> x.class, exc |-> x.exc])>>} ELSE {})
           \cup (IF x.exc = "" /\ e.exc = "" /\ (e.opens # x.opens \/ e.connects # x.connects \/ e.url # x.url
                                     \/ (x.class = "ISCSIDevice" /\ e.ctx # x.ctx))
                 THEN {<<"OpenedExactlyRequested", ToJson([opens |-> x.opens, connects |-> x.connects, url |-> x.url, ctx |-> x.ctx])>>} ELSE {})
           \cup (IF x.class = "SCSIDevice" /\ e.class = "SCSIDevice" /\ e.reopens # x.opens
                 THEN {<<"OpenedExactlyRequested", ToJson([reopened |-> e.reopens, requested |-> x.opens])>>} ELSE {})
      [] OTHER -> {<<"UnknownEvent", "">>}
TInit == l = 1
Step == /\ l <= Len(Trace)
        /\ \A v \in Judge(Trace[l]) : PrintT(<<"VERDICT", ToJson([i |-> l, clause |-> v[1], detail |-> v[2]])>>)
        /\ l' = l + 1
Finish == l = Len(Trace) + 1 /\ PrintT(<<"CONSUMED", ToJson([n |-> l - 1])>>) /\ UNCHANGED l
TSpec == TInit /\ [][Step \/ Finish]_l
=============================================================================
