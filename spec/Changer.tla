------------------------------- MODULE Changer -------------------------------
(***************************************************************************)
(* A conformant MEDIA CHANGER behind the facade (SMC-3): one medium           *)
(* transport element, two storage elements, one import/export element and      *)
(* one data transfer element, two cartridges.  The caller moves and exchanges   *)
(* media, positions the transport, initialises element status (all elements     *)
(* or a range), opens / closes the import/export element, prevents medium       *)
(* removal, and asks for element status - everything through the facade's        *)
(* methods (movemedium, exchangemedium, positiontoelement,                        *)
(* initializeelementstatus[withrange], opencloseimportexportelement,              *)
(* preventallowmediumremoval, readelementstatus), keeps a READ ELEMENT STATUS      *)
(* command object and issues it again later.  The operator inserts and removes     *)
(* cartridges at the open import/export element and opens the door (element         *)
(* status is then undetermined until the next initialisation).                      *)
(*                                                                          *)
(* This is the SMC counterpart of Target.tla / Initiator.tla (block devices):        *)
(* for every step there is ONE expected outcome - how many commands reach the         *)
(* changer, what the caller gets (a value, or CHECK CONDITION with the sense the       *)
(* changer sent), what the caller reads in the decoded element status, and the          *)
(* state the changer is in afterwards (which it reaches only if it recovered the         *)
(* caller's arguments from the CDB).  Behaviours are exported (exhaustively to a          *)
(* small depth, by -simulate beyond) and replayed step by step on the real facade          *)
(* over both transports against a changer that decodes the CDBs by the SMC-3 layouts.       *)
(***************************************************************************)
EXTENDS Naturals, Sequences, FiniteSets, TLC, Json

CONSTANTS MaxLen, Tr

\* element addresses: two bytes each, and both bytes carry information
MT == 1                 \* 0001h medium transport element       (type 1)
S1 == 1024              \* 0400h storage elements                (type 2)
S2 == 1025              \* 0401h
IE == 16                \* 0010h import/export element           (type 3)
DT == 256               \* 0100h data transfer element           (type 4)
Elems == {MT, S1, S2, IE, DT}
TypeOf(e) == CASE e = MT -> 1 [] e \in {S1, S2} -> 2 [] e = IE -> 3 [] OTHER -> 4
Media == {1, 2}
\* READ ELEMENT STATUS reports by element type (1..4), within a type by ascending address
Order == <<MT, S1, S2, IE, DT>>
Rank(e) == CHOOSE i \in 1..5 : Order[i] = e

VARIABLES at,        \* element -> medium in it (0 = empty)
          src,       \* element -> storage element its medium was last taken from (0 = not valid)
          byop,      \* the medium in the import/export element was put there by the operator
          ieopen,    \* the import/export element is open (extended towards the operator)
          prevent,   \* medium removal prevented
          pos,       \* element the transport is positioned at (0 = home)
          inited,    \* elements whose status has been determined since the door was last opened
          kept,      \* the READ ELEMENT STATUS request the caller keeps a command object for (<<>> = none)
          hist, exported
vars == <<at, src, byop, ieopen, prevent, pos, inited, kept, hist, exported>>

Init == /\ at = [e \in Elems |-> CASE e = S1 -> 1 [] e = S2 -> 2 [] OTHER -> 0]
        /\ src = [e \in Elems |-> 0] /\ byop = FALSE /\ ieopen = FALSE /\ prevent = FALSE /\ pos = 0
        /\ inited = Elems /\ kept = <<>> /\ hist = <<>> /\ exported = FALSE

Room == Len(hist) < MaxLen /\ ~exported

\* ---- what READ ELEMENT STATUS says --------------------------------------------------------------------
\* elements selected by (type code t, 0 = all; starting address; number): those of the type with address >= start,
\* in report order, the first num of them
Selected(t, start, num) ==
    LET c == SelectSeq(Order, LAMBDA e : (t = 0 \/ TypeOf(e) = t) /\ e >= start)
    IN  SubSeq(c, 1, IF Len(c) < num THEN Len(c) ELSE num)
\* one element descriptor as the caller reads it (voltag: PRIMARY VOLUME TAG requested)
Desc(e, voltag) ==
    [a |-> e, f |-> IF at[e] # 0 THEN 1 ELSE 0,
     x |-> IF e \in inited THEN 0 ELSE 1,                                  \* EXCEPT: status not determined
     v |-> IF voltag = 1 /\ at[e] # 0 THEN at[e] ELSE 0,                   \* volume identifier VOL00<n>
     sv |-> IF src[e] # 0 THEN 1 ELSE 0, s |-> src[e],
     acc |-> CASE TypeOf(e) = 1 -> 0 [] TypeOf(e) = 3 -> (IF ieopen THEN 0 ELSE 1) [] OTHER -> 1,
     ie |-> IF e = IE /\ byop /\ at[e] # 0 THEN 1 ELSE 0]
\* pages: one per element type present among the selected elements
View(t, start, num, voltag) ==
    LET sel == Selected(t, start, num)
        types == {TypeOf(sel[i]) : i \in 1..Len(sel)}
        PageOf(ty) == [t |-> ty, d |-> LET es == SelectSeq(sel, LAMBDA e : TypeOf(e) = ty)
                                      IN [i \in 1..Len(es) |-> Desc(es[i], voltag)]]
        tys == SelectSeq(<<1, 2, 3, 4>>, LAMBDA ty : ty \in types)
    IN [i \in 1..Len(tys) |-> PageOf(tys[i])]
\* bytes of the report: 8 (header) + per page 8 + descriptors of 12 (+ 36 with a volume tag) bytes
ReportBytes(t, start, num, voltag) ==
    LET sel == Selected(t, start, num)
        types == {TypeOf(sel[i]) : i \in 1..Len(sel)}
    IN 8 * Cardinality(types) + Len(sel) * (IF voltag = 1 THEN 48 ELSE 12)

\* ---- the record of one step ------------------------------------------------------------------------------
\* st: the changer's state after the step, as the replay reads it from its changer
StateNow(a, s, b, o, p, q, n) ==
    [at |-> [i \in 1..5 |-> a[Order[i]]], src |-> [i \in 1..5 |-> s[Order[i]]], byop |-> b, ieopen |-> o,
     prevent |-> p, pos |-> q, inited |-> [i \in 1..5 |-> IF Order[i] \in n THEN 1 ELSE 0]]
Rec(act, args, out, sent, d1, d2, view, st) ==
    [act |-> act, args |-> args, out |-> out, sent |-> sent, d1 |-> d1, d2 |-> d2, view |-> view, st |-> st]
Same == StateNow(at, src, byop, ieopen, prevent, pos, inited)
\* a command the changer rejects: CHECK CONDITION, ILLEGAL REQUEST (5h), with the additional sense code given;
\* nothing changes
Reject(act, args, asc, ascq) ==
    /\ hist' = Append(hist, Rec(act, args, "CheckCondition", 1, 5, asc * 256 + ascq, <<>>, Same))
    /\ UNCHANGED <<at, src, byop, ieopen, prevent, pos, inited, kept, exported>>

\* ---- the caller ----------------------------------------------------------------------------------------------
\* MOVE MEDIUM: source must be full (3Bh/0Eh MEDIUM SOURCE ELEMENT EMPTY), destination empty unless it is the
\* source (3Bh/0Dh MEDIUM DESTINATION ELEMENT FULL); the transport ends up at the destination
SrcAfter(s) == IF TypeOf(s) = 2 THEN s ELSE src[s]
Move(s, d, inv) ==
    /\ Room
    /\ LET args == <<MT, s, d, inv>> IN
       IF at[s] = 0 THEN Reject("move", args, 59, 14)
       ELSE IF s # d /\ at[d] # 0 THEN Reject("move", args, 59, 13)
       ELSE LET at2 == IF s = d THEN at ELSE [at EXCEPT ![s] = 0, ![d] = at[s]]
                src2 == IF s = d THEN src ELSE [src EXCEPT ![s] = 0, ![d] = SrcAfter(s)]
                by2 == IF s = d THEN byop ELSE IF s = IE \/ d = IE THEN FALSE ELSE byop
            IN /\ at' = at2 /\ src' = src2 /\ byop' = by2 /\ pos' = d
               /\ hist' = Append(hist, Rec("move", args, "ok", 1, 0, 0, <<>>, StateNow(at2, src2, by2, ieopen, prevent, d, inited)))
               /\ UNCHANGED <<ieopen, prevent, inited, kept, exported>>
\* EXCHANGE MEDIUM: the medium of the source goes to the first destination, the medium that was there goes to the
\* second destination (which may be the source)
Exchange(s, d1, d2) ==
    /\ Room /\ s # d1 /\ d2 # d1
    /\ LET args == <<MT, s, d1, d2>> IN
       IF at[s] = 0 THEN Reject("exchange", args, 59, 14)
       ELSE IF at[d1] # 0 /\ d2 # s /\ at[d2] # 0 THEN Reject("exchange", args, 59, 13)
       ELSE LET m1 == at[d1]
                at2 == [e \in Elems |-> IF e = d1 THEN at[s]
                                        ELSE IF e = d2 /\ m1 # 0 THEN m1
                                        ELSE IF e = s THEN 0 ELSE at[e]]
                src2 == [e \in Elems |-> IF e = d1 THEN SrcAfter(s)
                                         ELSE IF e = d2 /\ m1 # 0 THEN SrcAfter(d1)
                                         ELSE IF e = s THEN 0 ELSE src[e]]
                by2 == IF IE \in {s, d1} \/ (m1 # 0 /\ d2 = IE) THEN FALSE ELSE byop
                p2 == IF m1 # 0 THEN d2 ELSE d1
            IN /\ at' = at2 /\ src' = src2 /\ byop' = by2 /\ pos' = p2
               /\ hist' = Append(hist, Rec("exchange", args, "ok", 1, 0, 0, <<>>, StateNow(at2, src2, by2, ieopen, prevent, p2, inited)))
               /\ UNCHANGED <<ieopen, prevent, inited, kept, exported>>
Position(d, inv) ==
    /\ Room /\ pos' = d
    /\ hist' = Append(hist, Rec("position", <<MT, d, inv>>, "ok", 1, 0, 0, <<>>, StateNow(at, src, byop, ieopen, prevent, d, inited)))
    /\ UNCHANGED <<at, src, byop, ieopen, prevent, inited, kept, exported>>
InitAll ==
    /\ Room /\ inited' = Elems
    /\ hist' = Append(hist, Rec("initall", <<>>, "ok", 1, 0, 0, <<>>, StateNow(at, src, byop, ieopen, prevent, pos, Elems)))
    /\ UNCHANGED <<at, src, byop, ieopen, prevent, pos, kept, exported>>
\* INITIALIZE ELEMENT STATUS WITH RANGE: RANGE = 0 means all elements (address and number ignored); RANGE = 1 the
\* num elements with the lowest addresses >= start
ByAddress == <<MT, IE, DT, S1, S2>>
InRange(start, num) ==
    LET c == SelectSeq(ByAddress, LAMBDA e : e >= start)
    IN {c[i] : i \in 1..(IF Len(c) < num THEN Len(c) ELSE num)}
InitRange(start, num, rng, fast) ==
    /\ Room
    /\ LET n2 == IF rng = 0 THEN Elems ELSE inited \cup InRange(start, num) IN
       /\ inited' = n2
       /\ hist' = Append(hist, Rec("initrange", <<start, num, rng, fast>>, "ok", 1, 0, 0, <<>>, StateNow(at, src, byop, ieopen, prevent, pos, n2)))
    /\ UNCHANGED <<at, src, byop, ieopen, prevent, pos, kept, exported>>
\* OPEN/CLOSE IMPORT/EXPORT ELEMENT: action code 0 opens, 1 closes; opening is refused while removal is
\* prevented (53h/02h MEDIUM REMOVAL PREVENTED)
OpenClose(code) ==
    /\ Room
    /\ IF code = 0 /\ prevent THEN Reject("openclose", <<IE, code>>, 83, 2)
       ELSE /\ ieopen' = (code = 0)
            /\ hist' = Append(hist, Rec("openclose", <<IE, code>>, "ok", 1, 0, 0, <<>>, StateNow(at, src, byop, code = 0, prevent, pos, inited)))
            /\ UNCHANGED <<at, src, byop, prevent, pos, inited, kept, exported>>
Prevent(p) ==
    /\ Room /\ prevent' = (p = 1)
    /\ hist' = Append(hist, Rec("prevent", <<p>>, "ok", 1, 0, 0, <<>>, StateNow(at, src, byop, ieopen, p = 1, pos, inited)))
    /\ UNCHANGED <<at, src, byop, ieopen, pos, inited, kept, exported>>
\* READ ELEMENT STATUS with room for the whole report; d1 = number of elements reported, d2 = bytes of the report
Status(t, start, num, voltag, keep) ==
    /\ Room
    /\ hist' = Append(hist, Rec(IF keep THEN "keepstatus" ELSE "status", <<t, start, num, voltag>>, "ok", 1,
                                Len(Selected(t, start, num)), ReportBytes(t, start, num, voltag), View(t, start, num, voltag), Same))
    /\ kept' = IF keep THEN <<t, start, num, voltag>> ELSE kept
    /\ UNCHANGED <<at, src, byop, ieopen, prevent, pos, inited, exported>>
\* ... with an allocation length of 8: only the header comes back, which says how much there is
Size(t, voltag) ==
    /\ Room
    /\ hist' = Append(hist, Rec("size", <<t, 0, 255, voltag>>, "ok", 1, Len(Selected(t, 0, 255)), ReportBytes(t, 0, 255, voltag), <<>>, Same))
    /\ UNCHANGED <<at, src, byop, ieopen, prevent, pos, inited, kept, exported>>
\* the kept command object is executed again: it reports the changer as it is NOW
Reissue ==
    /\ Room /\ kept # <<>>
    /\ hist' = Append(hist, Rec("reissue", kept, "ok", 1, Len(Selected(kept[1], kept[2], kept[3])),
                                ReportBytes(kept[1], kept[2], kept[3], kept[4]), View(kept[1], kept[2], kept[3], kept[4]), Same))
    /\ UNCHANGED <<at, src, byop, ieopen, prevent, pos, inited, kept, exported>>

\* ---- the operator ------------------------------------------------------------------------------------------------
Outside == Media \ {at[e] : e \in Elems}
Insert(m) == /\ Room /\ ieopen /\ at[IE] = 0 /\ m \in Outside
             /\ at' = [at EXCEPT ![IE] = m] /\ src' = [src EXCEPT ![IE] = 0] /\ byop' = TRUE
             /\ hist' = Append(hist, Rec("insert", <<m>>, "ok", 0, 0, 0, <<>>, StateNow(at', src', TRUE, ieopen, prevent, pos, inited)))
             /\ UNCHANGED <<ieopen, prevent, pos, inited, kept, exported>>
Remove == /\ Room /\ ieopen /\ at[IE] # 0
          /\ at' = [at EXCEPT ![IE] = 0] /\ src' = [src EXCEPT ![IE] = 0] /\ byop' = FALSE
          /\ hist' = Append(hist, Rec("remove", <<>>, "ok", 0, 0, 0, <<>>, StateNow(at', src', FALSE, ieopen, prevent, pos, inited)))
          /\ UNCHANGED <<ieopen, prevent, pos, inited, kept, exported>>
Door == /\ Room /\ inited # {} /\ inited' = {}
        /\ hist' = Append(hist, Rec("door", <<>>, "ok", 0, 0, 0, <<>>, StateNow(at, src, byop, ieopen, prevent, pos, {})))
        /\ UNCHANGED <<at, src, byop, ieopen, prevent, pos, kept, exported>>
Export == /\ Len(hist) = MaxLen /\ ~exported
          /\ PrintT(<<"CHANGER", ToJson([tr |-> Tr, steps |-> hist])>>)
          /\ exported' = TRUE /\ UNCHANGED <<at, src, byop, ieopen, prevent, pos, inited, kept, hist>>

Starts == {0, S1, S2}
Nums == {1, 2, 255}
Next == \/ \E s \in Elems, d \in Elems, inv \in {0, 1} : Move(s, d, inv)
        \/ \E s \in Elems, d1 \in Elems, d2 \in Elems : Exchange(s, d1, d2)
        \/ \E d \in Elems, inv \in {0, 1} : Position(d, inv)
        \/ InitAll
        \/ \E st \in {0, IE, S1, S2}, n \in {1, 2}, r \in {0, 1}, f \in {0, 1} : InitRange(st, n, r, f)
        \/ \E c \in {0, 1} : OpenClose(c) \/ Prevent(c)
        \/ \E t \in 0..4, st \in Starts, n \in Nums, v \in {0, 1} : Status(t, st, n, v, FALSE)
        \/ \E t \in 0..4, v \in {0, 1} : Status(t, 0, 255, v, TRUE)
        \/ \E t \in 0..4, v \in {0, 1} : Size(t, v)
        \/ Reissue
        \/ \E m \in Media : Insert(m)
        \/ Remove \/ Door
        \/ Export
Spec == Init /\ [][Next]_vars
\* a narrower caller (fewer argument values) so that TLC can enumerate every behaviour of three and four steps:
\* moves between the storage, data transfer and import/export elements, one exchange shape, the kept report
NextSmall == \/ \E s \in {S1, S2, DT, IE}, d \in {S1, S2, DT, IE} : Move(s, d, 0)
             \/ \E d2 \in {S1, S2} : Exchange(S1, DT, d2)
             \/ \E v \in {0, 1} : Status(0, 0, 255, v, TRUE)
             \/ Reissue \/ InitAll \/ Prevent(1) \/ Door \/ Remove
             \/ \E c \in {0, 1} : OpenClose(c)
             \/ \E m \in Media : Insert(m)
             \/ Export
SpecSmall == Init /\ [][NextSmall]_vars

\* ---- what the design guarantees (checked by TLC on the model itself) ------------------------------------------------
\* no cartridge is ever in two places, none appears from nowhere
MediaConserved == \A m \in Media : Cardinality({e \in Elems : at[e] = m}) <= 1
\* a valid source address names a storage element and belongs to a medium that is there
SourceValid == \A e \in Elems : src[e] # 0 => at[e] # 0 /\ TypeOf(src[e]) = 2
\* a rejected command changes nothing in the changer
RejectedChangesNothing == [][(hist' # hist /\ hist'[Len(hist')].out = "CheckCondition")
                               => UNCHANGED <<at, src, byop, ieopen, prevent, pos, inited>>]_vars
\* every command of the caller reaches the changer exactly once, the operator's actions send nothing
OncePerCall == \A i \in 1..Len(hist) : hist[i].sent = (IF hist[i].act \in {"insert", "remove", "door"} THEN 0 ELSE 1)
\* a report never shows more full elements than there are cartridges, and never the same cartridge twice
ReportsConsistent ==
    \A i \in 1..Len(hist) :
        LET v == hist[i].view
            ds == UNION {{<<p, k>> : k \in 1..Len(v[p].d)} : p \in 1..Len(v)}
        IN /\ Cardinality({x \in ds : v[x[1]].d[x[2]].f = 1}) <= Cardinality(Media)
           /\ \A x, y \in ds : (x # y /\ v[x[1]].d[x[2]].v # 0) => v[x[1]].d[x[2]].v # v[y[1]].d[y[2]].v
TypeOK == /\ at \in [Elems -> 0..2] /\ pos \in Elems \cup {0} /\ inited \subseteq Elems
\* the state without its history (see Reservations!CoreView); the reports (Status, Size, Reissue) change nothing but
\* the history and the kept request, so the unbounded run leaves them out
CoreView == <<at, src, byop, ieopen, prevent, pos, inited>>
NextCore == \/ \E s \in Elems, d \in Elems, inv \in {0, 1} : Move(s, d, inv)
            \/ \E s \in Elems, d1 \in Elems, d2 \in Elems : Exchange(s, d1, d2)
            \/ \E d \in Elems, inv \in {0, 1} : Position(d, inv)
            \/ InitAll
            \/ \E st \in {0, IE, S1, S2}, n \in {1, 2}, r \in {0, 1}, f \in {0, 1} : InitRange(st, n, r, f)
            \/ \E c \in {0, 1} : OpenClose(c) \/ Prevent(c)
            \/ \E m \in Media : Insert(m)
            \/ Remove \/ Door
SpecCore == Init /\ [][NextCore]_vars
=============================================================================
