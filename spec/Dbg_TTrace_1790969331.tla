---- MODULE Dbg_TTrace_1790969331 ----
EXTENDS Sequences, TLCExt, Toolbox, Dbg, Naturals, TLC

_expression ==
    LET Dbg_TEExpression == INSTANCE Dbg_TEExpression
    IN Dbg_TEExpression!expression
----

_trace ==
    LET Dbg_TETrace == INSTANCE Dbg_TETrace
    IN Dbg_TETrace!trace
----

_inv ==
    ~(
        TLCGet("level") = Len(_TETrace)
        /\
        phase = ("done")
        /\
        arg = ([tl |-> <<>>, rdprotect |-> <<>>, dpo |-> <<>>, fua |-> <<>>, rarc |-> <<>>, lba |-> <<>>, group |-> <<>>, blocksize |-> <<>>])
        /\
        cls = ("Read10")
    )
----

_init ==
    /\ phase = _TETrace[1].phase
    /\ cls = _TETrace[1].cls
    /\ arg = _TETrace[1].arg
----

_next ==
    /\ \E i,j \in DOMAIN _TETrace:
        /\ \/ /\ j = i + 1
              /\ i = TLCGet("level")
        /\ phase  = _TETrace[i].phase
        /\ phase' = _TETrace[j].phase
        /\ cls  = _TETrace[i].cls
        /\ cls' = _TETrace[j].cls
        /\ arg  = _TETrace[i].arg
        /\ arg' = _TETrace[j].arg

\* Uncomment the ASSUME below to write the states of the error trace
\* to the given file in Json format. Note that you can pass any tuple
\* to `JsonSerialize`. For example, a sub-sequence of _TETrace.
    \* ASSUME
    \*     LET J == INSTANCE Json
    \*         IN J!JsonSerialize("Dbg_TTrace_1790969331.json", _TETrace)

=============================================================================

 Note that you can extract this module `Dbg_TEExpression`
  to a dedicated file to reuse `expression` (the module in the 
  dedicated `Dbg_TEExpression.tla` file takes precedence 
  over the module `Dbg_TEExpression` below).

---- MODULE Dbg_TEExpression ----
EXTENDS Sequences, TLCExt, Toolbox, Dbg, Naturals, TLC

expression == 
    [
        \* To hide variables of the `Dbg` spec from the error trace,
        \* remove the variables below.  The trace will be written in the order
        \* of the fields of this record.
        phase |-> phase
        ,cls |-> cls
        ,arg |-> arg
        
        \* Put additional constant-, state-, and action-level expressions here:
        \* ,_stateNumber |-> _TEPosition
        \* ,_phaseUnchanged |-> phase = phase'
        
        \* Format the `phase` variable as Json value.
        \* ,_phaseJson |->
        \*     LET J == INSTANCE Json
        \*     IN J!ToJson(phase)
        
        \* Lastly, you may build expressions over arbitrary sets of states by
        \* leveraging the _TETrace operator.  For example, this is how to
        \* count the number of times a spec variable changed up to the current
        \* state in the trace.
        \* ,_phaseModCount |->
        \*     LET F[s \in DOMAIN _TETrace] ==
        \*         IF s = 1 THEN 0
        \*         ELSE IF _TETrace[s].phase # _TETrace[s-1].phase
        \*             THEN 1 + F[s-1] ELSE F[s-1]
        \*     IN F[_TEPosition - 1]
    ]

=============================================================================



Parsing and semantic processing can take forever if the trace below is long.
 In this case, it is advised to uncomment the module below to deserialize the
 trace from a generated binary file.

\*
\*---- MODULE Dbg_TETrace ----
\*EXTENDS IOUtils, Dbg, TLC
\*
\*trace == IODeserialize("Dbg_TTrace_1790969331.bin", TRUE)
\*
\*=============================================================================
\*

---- MODULE Dbg_TETrace ----
EXTENDS Dbg, TLC

trace == 
    <<
    ([phase |-> "pick",arg |-> <<>>,cls |-> "Read10"]),
    ([phase |-> "case",arg |-> [tl |-> <<>>, rdprotect |-> <<>>, dpo |-> <<>>, fua |-> <<>>, rarc |-> <<>>, lba |-> <<>>, group |-> <<>>, blocksize |-> <<>>],cls |-> "Read10"]),
    ([phase |-> "done",arg |-> [tl |-> <<>>, rdprotect |-> <<>>, dpo |-> <<>>, fua |-> <<>>, rarc |-> <<>>, lba |-> <<>>, group |-> <<>>, blocksize |-> <<>>],cls |-> "Read10"])
    >>
----


=============================================================================

---- CONFIG Dbg_TTrace_1790969331 ----
CONSTANTS
    ClassSet = { "Read10" }

INVARIANT
    _inv

CHECK_DEADLOCK
    \* CHECK_DEADLOCK off because of PROPERTY or INVARIANT above.
    FALSE

INIT
    _init

NEXT
    _next

CONSTANT
    _TETrace <- _trace

ALIAS
    _expression
=============================================================================
\* Generated on Fri Oct 02 19:30:22 UTC 2026