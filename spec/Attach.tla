-------------------------------- MODULE Attach --------------------------------
(***************************************************************************)
(* One facade, several devices of arbitrary peripheral device types; the     *)
(* facade is attached and re-attached in any order.  sel[d] is the command    *)
(* set device d carries (a device starts with the primary set).               *)
(***************************************************************************)
EXTENDS AttachRules
CONSTANTS Devs, Types
VARIABLES type, sel, attached, inq
vars == <<type, sel, attached, inq>>
Init == type \in [Devs -> Types] /\ sel = [d \in Devs |-> "spc"] /\ attached = "none" /\ inq = [d \in Devs |-> 0]
\* attach: one INQUIRY, then the selection depends on the reported type (and, for types the
\* property does not name, on nothing but that device itself)
Attach(d) == /\ attached' = d
             /\ inq' = [inq EXCEPT ![d] = IF @ < 3 THEN @ + 1 ELSE @]
             /\ sel' = [sel EXCEPT ![d] = IF Named(type[d]) # "" THEN Named(type[d]) ELSE @]
             /\ UNCHANGED type
Next == \E d \in Devs : Attach(d)
Spec == Init /\ [][Next]_vars
TypeSelectsSet == attached # "none" /\ Named(type[attached]) # "" => sel[attached] = Named(type[attached])
\* attaching to one device never changes what another device carries
NoLeakAcrossAttach == [][\A d \in Devs : d # attached' => sel'[d] = sel[d]]_vars
\* for types the property does not name the device keeps its own (primary) set whatever was attached before
UnnamedKeepsOwn == \A d \in Devs : Named(type[d]) = "" => sel[d] = "spc"
=============================================================================
