-------------------------------- MODULE Target --------------------------------
(***************************************************************************)
(* Design-level model of C12: the caller issues block commands with LBAs from *)
(* three clusters (around 0, around 2^32, at the top of 64 bits); the request  *)
(* travels as a CDB (EncodeCdb) to a target that only sees bytes                *)
(* (TargetDecode).  `mine` is what the caller believes the medium holds,        *)
(* `disk` what the target holds.                                                *)
(***************************************************************************)
EXTENDS TargetRules
CONSTANTS BS
VARIABLES disk, mine, last
vars == <<disk, mine, last>>

P32 == <<1, 0, 0, 0, 0>>
Top == <<255, 255, 255, 255, 255, 255, 255, 253>>
LBAs == {<<>>, <<255, 255, 255, 255>>, P32, Lba(Top, 1), Lba(Top, 2)}
Datas == {[j \in 1..BS |-> 200 + j]}
Writers == {"Write10", "Write12", "Write16", "WriteSame10", "WriteSame16"}
Readers == {"Read10", "Read12", "Read16"}
LbaWidth(c) == FieldOfKeyArg(c, "lba").w
CntArg(c) == IF Cmd[c].phase.k = "out_block" THEN "nb" ELSE "tl"
\* the request fits the command (a caller cannot ask READ(10) for an LBA above 2^32)
Fit(c, lba, n) == Fits(Lba(lba, n - 1), LbaWidth(c)) /\ Len(Lba(lba, n - 1)) <= 8

Args(c, lba, n, extra) == [k \in {"lba", CntArg(c), "blocksize"} \cup DOMAIN extra |->
                             IF k = "lba" THEN lba ELSE IF k = CntArg(c) THEN NumOfNat(n)
                             ELSE IF k = "blocksize" THEN NumOfNat(BS) ELSE extra[k]]

Init == disk = [x \in {} |-> <<>>] /\ mine = [x \in {} |-> <<>>] /\ last = <<>>

Write(c, lba, n, d, ndob) ==
    /\ Fit(c, lba, n)
    /\ LET a == Args(c, lba, n, IF c = "WriteSame16" THEN [ndob |-> NumOfNat(ndob)] ELSE [x \in {} |-> <<>>])
           t == TargetDecode(c, EncodeCdb(c, a))
           blk == IF ndob = 1 THEN Zeros(BS) ELSE d
           payload == Repeat(blk, n) IN
       /\ disk' = WriteBlocks(disk, t["lba"], NatClamp(t[CntArg(c)]), BS, payload)
       /\ mine' = WriteBlocks(mine, lba, n, BS, payload)
       /\ last' = <<c, lba>>
Read(c, lba, n) ==
    /\ Fit(c, lba, n)
    /\ LET t == TargetDecode(c, EncodeCdb(c, Args(c, lba, n, [x \in {} |-> <<>>]))) IN
       last' = <<c, ReadBlocks(disk, t["lba"], NatClamp(t["tl"]), BS), ReadBlocks(mine, lba, n, BS)>>
    /\ UNCHANGED <<disk, mine>>
Next == \/ \E c \in Writers, lba \in LBAs, n \in 1..2, d \in Datas : Write(c, lba, n, d, 0)
        \/ \E lba \in LBAs, n \in 1..2 : Write("WriteSame16", lba, n, Zeros(BS), 1)
        \/ \E c \in Readers, lba \in LBAs, n \in 1..2 : Read(c, lba, n)
Spec == Init /\ [][Next]_vars

\* a read returns what was last written to each block the caller named
ReadYourWrites == Len(last) = 3 => last[2] = last[3]
SameMedium == \A lba \in LBAs : BlockAt(disk, lba, BS) = BlockAt(mine, lba, BS)
Depth == TLCGet("level") <= 3
=============================================================================
