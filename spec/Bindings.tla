------------------------------ MODULE Bindings ------------------------------
(* the interpreter-level state machine of C19; rules in BindingsRules.tla *)
EXTENDS BindingsRules

\* ---- state machine: one interpreter per configuration --------------------
CONSTANTS DevStrings, Initiators
VARIABLES cfg, imported, last, opened, connected
vars == <<cfg, imported, last, opened, connected>>

Init == cfg \in Configs /\ imported = FALSE /\ last = [class |-> "", exc |-> ""] /\ opened = <<>> /\ connected = 0

Import == /\ ~imported /\ imported' = TRUE /\ UNCHANGED <<cfg, last, opened, connected>>   \* always succeeds

InitDevice(via, dev, rw, ini) ==
    /\ imported
    /\ LET e == ExpectVia(via, cfg, dev, rw, ini) IN
       /\ last' = [class |-> e.class, exc |-> e.exc]
       /\ opened' = e.opens
       /\ connected' = e.connects
    /\ UNCHANGED <<cfg, imported>>

Next == Import \/ \E v \in Routes, d \in DevStrings, rw \in BOOLEAN, i \in Initiators : InitDevice(v, d, rw, i)
Spec == Init /\ [][Next]_vars

MissingRefusedBeforeOpen == last.exc # "" => opened = <<>> /\ connected = 0
OpenedExactlyRequested == Len(opened) <= 1 /\ connected <= 1 /\ (last.class = "SCSIDevice" => Len(opened) = 1)
RefusedIffMissing == last.class = "SCSIDevice" => cfg.sgio
RefusedIffMissing2 == last.class = "ISCSIDevice" => cfg.iscsi
=============================================================================
