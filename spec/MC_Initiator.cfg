SPECIFICATION Spec
CONSTANTS
  MaxLen = 5
  Detect = TRUE
INVARIANT SameMedium
INVARIANT FreshAfterSuccess
CHECK_DEADLOCK FALSE
