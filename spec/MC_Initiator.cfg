SPECIFICATION Spec
CONSTANTS
  MaxLen = 4
  Detect = TRUE
  Tr = "sgio"
INVARIANT SameMedium
INVARIANT FreshAfterSuccess
CHECK_DEADLOCK FALSE
