SPECIFICATION Spec
CONSTANTS
  MaxLen = 5
  Detect = TRUE
  Tr = "sgio"
INVARIANT SameMedium
INVARIANT FreshAfterSuccess
CHECK_DEADLOCK FALSE
