------------------------------ MODULE Trace_Facade ------------------------------
(* one event per facade call: [method, exc, execs, same_bufs (the buffers the device saw are the
   ones of the returned command), same_cdb (the CDB the device saw is the returned command's),
   returned (a command object came back)] *)
EXTENDS Naturals, Sequences, TLC, Json, IOUtils
Trace == JsonDeserialize(IOEnv.TRACE_FILE)
VARIABLE l
Judge(e) ==
    IF e.fail # "" THEN      \* the device raised e.fail after taking the command (Facade!Fail): propagate, exactly once
        (IF e.exc # e.fail THEN {<<"ErrorPropagates", e.fail>>} ELSE {})
        \cup (IF e.execs # 1 THEN {<<"ExactlyOnce", ToString(e.execs)>>} ELSE {})
        \cup (IF e.returned THEN {<<"ErrorPropagates", "command returned">>} ELSE {})
    ELSE IF e.exc # "" THEN {<<"AllDocumentedArgumentsAccepted", e.exc>>}
    ELSE (IF e.execs # 1 THEN {<<"ExactlyOnce", ToString(e.execs)>>} ELSE {})
         \cup (IF ~e.returned THEN {<<"ReturnsCommand", "">>} ELSE {})
         \cup (IF e.execs >= 1 /\ ~e.same_bufs THEN {<<"SameBuffers", "">>} ELSE {})
         \cup (IF e.execs >= 1 /\ ~e.same_cdb THEN {<<"SameBuffers", "cdb">>} ELSE {})
TInit == l = 1
Step == /\ l <= Len(Trace)
        /\ \A v \in Judge(Trace[l]) : PrintT(<<"VERDICT", ToJson([i |-> l, clause |-> v[1], detail |-> v[2]])>>)
        /\ l' = l + 1
Finish == l = Len(Trace) + 1 /\ PrintT(<<"CONSUMED", ToJson([n |-> l - 1])>>) /\ UNCHANGED l
TSpec == TInit /\ [][Step \/ Finish]_l
=============================================================================
