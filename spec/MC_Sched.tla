------------------------------ MODULE MC_Sched ------------------------------
EXTENDS Sched, IOUtils
\* thread lengths come from the measured programs (environment variables N1, N2, [N3])
EnvN == IF "N3" \in DOMAIN IOEnv THEN <<atoi(IOEnv.N1), atoi(IOEnv.N2), atoi(IOEnv.N3)>>
        ELSE <<atoi(IOEnv.N1), atoi(IOEnv.N2)>>
EnvP == atoi(IOEnv.P)
EnvGrid == atoi(IOEnv.GRID)
=============================================================================
