SPECIFICATION Spec
INVARIANT PositionsRoundTrip
INVARIANT TableIsFunction
CHECK_DEADLOCK FALSE
