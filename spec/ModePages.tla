------------------------------ MODULE ModePages ------------------------------
(***************************************************************************)
(* MODE SENSE / MODE SELECT against a target that keeps mode pages (SPC-4      *)
(* 6.9 - 6.12, 7.5): the read - modify - write cycle of tools/swp.py as a        *)
(* machine.  Two pages: Control (0Ah: SWP, D_SENSE, QUEUE ALGORITHM MODIFIER,     *)
(* BUSY TIMEOUT PERIOD) and Disconnect-Reconnect (02h: MAXIMUM BURST SIZE,         *)
(* BUFFER FULL RATIO), each with current, saved, default and changeable values      *)
(* (page control 0..3).  The caller reads a page through facade.modesense6 or        *)
(* modesense10 (with or without block descriptors), keeps the decoded result,         *)
(* changes ONE field in it and writes the result back through modeselect6 /            *)
(* modeselect10 (with or without SAVE PAGES).  The target takes the new values          *)
(* from the parameter list the library built; a change to a field that is not            *)
(* changeable is 5h/26h/00h and changes nothing.  What the pages say has effects:          *)
(* with SWP set a WRITE is answered 7h/27h/00h WRITE PROTECTED and the mode                 *)
(* parameter header reports WP; with D_SENSE set the target sends descriptor-format          *)
(* sense data (72h) instead of fixed-format (70h) - the caller's error says the same.         *)
(* A power cycle puts the saved values back.                                                   *)
(*                                                                          *)
(* Every step has ONE expected outcome (commands at the target, GOOD or CHECK                   *)
(* CONDITION with that sense, the field values the caller reads, the target's pages              *)
(* afterwards); behaviours are exported and replayed on the real facade over both                 *)
(* transports against a target that parses MODE SELECT parameter lists and builds MODE             *)
(* SENSE data by the standard's layout.                                                             *)
(***************************************************************************)
EXTENDS Naturals, Sequences, FiniteSets, TLC, Json

CONSTANTS MaxLen, Tr

\* pages as sequences of field values:  Control <<swp, d_sense, queue_algorithm_modifier, busy_timeout_period>>
\*                                      Disconnect-Reconnect <<maximum_burst_size, buffer_full_ratio>>
Pages == {10, 2}
NF(p) == IF p = 10 THEN 4 ELSE 2
Default(p) == IF p = 10 THEN <<0, 0, 1, 0>> ELSE <<0, 128>>
\* changeable values as MODE SENSE reports them with PC = 1: all ones in a changeable field, zero elsewhere
Mask(p) == IF p = 10 THEN <<1, 1, 0, 65535>> ELSE <<65535, 0>>
Vals(p, f) == IF p = 10 THEN (CASE f = 1 -> {0, 1} [] f = 2 -> {0, 1} [] f = 3 -> {0, 1} [] OTHER -> {0, 4660})
              ELSE (IF f = 1 THEN {0, 512} ELSE {0, 128})

VARIABLES cur, saved,   \* page -> values
          held,         \* the decoded result the caller keeps: <<version (6 | 10), page, values>> or <<>>
          disk, hist, exported
vars == <<cur, saved, held, disk, hist, exported>>

Init == /\ cur = [p \in Pages |-> Default(p)] /\ saved = [p \in Pages |-> Default(p)]
        /\ held = <<>> /\ disk = 0 /\ hist = <<>> /\ exported = FALSE
Room == Len(hist) < MaxLen /\ ~exported
Swp == cur[10][1]
DSense == cur[10][2]
StateNow(c, s, d) == [c10 |-> c[10], c2 |-> c[2], s10 |-> s[10], s2 |-> s[2], disk |-> d]
Rec(act, args, out, sent, d1, d2, view, st) ==
    [act |-> act, args |-> args, out |-> out, sent |-> sent, d1 |-> d1, d2 |-> d2, view |-> view, st |-> st]

\* MODE SENSE(6 / 10): page control pc (0 current, 1 changeable, 2 default, 3 saved); d1 = WP of the header, d2 = the
\* sense format the target is using now (0 fixed, 1 descriptor; not visible in this command, recorded for the replay)
PageVals(pc, p) == CASE pc = 0 -> cur[p] [] pc = 1 -> Mask(p) [] pc = 2 -> Default(p) [] OTHER -> saved[p]
Sense(v, pc, p, dbd) ==
    /\ Room
    /\ hist' = Append(hist, Rec("sense", <<v, pc, p, dbd>>, "ok", 1, Swp, DSense, PageVals(pc, p), StateNow(cur, saved, disk)))
    /\ held' = IF pc = 0 THEN <<v, p, cur[p]>> ELSE held
    /\ UNCHANGED <<cur, saved, disk, exported>>
\* the caller sets field f of the result it holds to x and writes the result back with the MODE SELECT of the same size
Select(sp, f, x) ==
    /\ Room /\ held # <<>> /\ f \in 1..NF(held[2]) /\ x \in Vals(held[2], f)
    /\ LET v == held[1] p == held[2]
           new == [held[3] EXCEPT ![f] = x]
           legal == \A k \in 1..NF(p) : Mask(p)[k] # 0 \/ new[k] = cur[p][k]
           c2 == IF legal THEN [cur EXCEPT ![p] = new] ELSE cur
           s2 == IF legal /\ sp = 1 THEN [saved EXCEPT ![p] = new] ELSE saved IN
       /\ cur' = c2 /\ saved' = s2 /\ held' = <<v, p, new>>
       /\ hist' = Append(hist, Rec("select", <<v, sp, p, f, x>>, IF legal THEN "ok" ELSE "CheckCondition", 1,
                                   IF legal THEN 0 ELSE 5, IF legal THEN 0 ELSE 38 * 256, new, StateNow(c2, s2, disk)))
    /\ UNCHANGED <<disk, exported>>
Write(x) ==
    /\ Room
    /\ disk' = IF Swp = 1 THEN disk ELSE x
    /\ hist' = Append(hist, Rec("write", <<x>>, IF Swp = 1 THEN "CheckCondition" ELSE "ok", 1, IF Swp = 1 THEN 7 ELSE 0,
                                IF Swp = 1 THEN 39 * 256 ELSE 0, <<DSense>>, StateNow(cur, saved, disk')))
    /\ UNCHANGED <<cur, saved, held, exported>>
Read ==
    /\ Room
    /\ hist' = Append(hist, Rec("read", <<>>, "ok", 1, disk, 0, <<>>, StateNow(cur, saved, disk)))
    /\ UNCHANGED <<cur, saved, held, disk, exported>>
\* power cycle: the saved values become current
PowerCycle ==
    /\ Room /\ cur' = saved
    /\ hist' = Append(hist, Rec("powercycle", <<>>, "ok", 0, 0, 0, <<>>, StateNow(saved, saved, disk)))
    /\ UNCHANGED <<saved, held, disk, exported>>
Export == /\ Len(hist) = MaxLen /\ ~exported
          /\ PrintT(<<"MODEPAGES", ToJson([tr |-> Tr, steps |-> hist])>>)
          /\ exported' = TRUE /\ UNCHANGED <<cur, saved, held, disk, hist>>

Next == \/ \E v \in {6, 10}, pc \in 0..3, p \in Pages, dbd \in {0, 1} : Sense(v, pc, p, dbd)
        \/ \E sp \in {0, 1}, f \in 1..4, x \in {0, 1, 128, 512, 4660} : Select(sp, f, x)
        \/ \E x \in {1, 2} : Write(x)
        \/ Read \/ PowerCycle \/ Export
Spec == Init /\ [][Next]_vars
\* a narrower caller: current values only, block descriptors disabled, the fields that matter
NextSmall == \/ \E v \in {6, 10} : Sense(v, 0, 10, 1)
             \/ Sense(6, 3, 10, 0) \/ Sense(10, 0, 2, 0)
             \/ \E sp \in {0, 1}, x \in {0, 1} : Select(sp, 1, x) \/ Select(sp, 2, x)
             \/ Select(0, 3, 0)
             \/ Write(1) \/ Write(2) \/ Read \/ PowerCycle \/ Export
SpecSmall == Init /\ [][NextSmall]_vars

\* ---- what the design guarantees (checked by TLC on the model itself) --------------------------------------------------
TypeOK == \A p \in Pages : \A k \in 1..NF(p) : cur[p][k] \in Vals(p, k) /\ saved[p][k] \in Vals(p, k)
\* fields that are not changeable keep their default value, in the current and in the saved pages
UnchangeableKept == \A p \in Pages : \A k \in 1..NF(p) : Mask(p)[k] = 0 => cur[p][k] = Default(p)[k] /\ saved[p][k] = Default(p)[k]
\* the medium never changes while it is write protected
ProtectedMediumKept == [][Swp = 1 => disk' = disk]_vars
\* a rejected MODE SELECT changes nothing; the saved pages only change through a MODE SELECT with SP = 1
RejectedChangesNothing == [][(hist' # hist /\ hist'[Len(hist')].out = "CheckCondition") => UNCHANGED <<cur, saved, disk>>]_vars
SavedOnlyBySp == [][saved' # saved => hist'[Len(hist')].act = "select" /\ hist'[Len(hist')].args[2] = 1]_vars
\* the state without its history (see Reservations!CoreView)
CoreView == <<cur, saved, held, disk>>
=============================================================================
