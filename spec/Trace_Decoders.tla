--------------------------- MODULE Trace_Decoders ---------------------------
(* one event per decoder call: [fmt, len, steps, outcome, tb1, tbn]; steps = source lines executed inside
   the library; the budget is linear in the buffer length with a generous constant.  tb1 / tbn: size of the
   error (traceback entries) of the 1st and the 12th rejection of the same response, 0 when not measured: what a
   rejection keeps allocated must not grow with the number of rejections *)
EXTENDS Naturals, Sequences, TLC, Json, IOUtils
Trace == JsonDeserialize(IOEnv.TRACE_FILE)
VARIABLE l
BudgetOf(n) == 2000 + 1000 * n
TInit == l = 1
Step == /\ l <= Len(Trace)
        /\ LET e == Trace[l] IN
           /\ IF e.outcome # "budget" /\ e.steps <= BudgetOf(e.len) THEN TRUE
              ELSE PrintT(<<"VERDICT", ToJson([i |-> l, clause |-> "Termination", detail |-> ToString(BudgetOf(e.len))])>>)
           /\ IF e.tbn <= e.tb1 THEN TRUE
              ELSE PrintT(<<"VERDICT", ToJson([i |-> l, clause |-> "BoundedAllocation", detail |-> ToString(<<e.tb1, e.tbn>>)])>>)
        /\ l' = l + 1
Finish == l = Len(Trace) + 1 /\ PrintT(<<"CONSUMED", ToJson([n |-> l - 1])>>) /\ UNCHANGED l
TSpec == TInit /\ [][Step \/ Finish]_l
=============================================================================
