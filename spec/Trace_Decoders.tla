--------------------------- MODULE Trace_Decoders ---------------------------
(* one event per decoder call: [fmt, len, steps, outcome]; steps = source lines executed inside
   the library; the budget is linear in the buffer length with a generous constant *)
EXTENDS Naturals, Sequences, TLC, Json, IOUtils
Trace == JsonDeserialize(IOEnv.TRACE_FILE)
VARIABLE l
BudgetOf(n) == 2000 + 1000 * n
TInit == l = 1
Step == /\ l <= Len(Trace)
        /\ LET e == Trace[l] IN
           IF e.outcome # "budget" /\ e.steps <= BudgetOf(e.len) THEN TRUE
           ELSE PrintT(<<"VERDICT", ToJson([i |-> l, clause |-> "Termination", detail |-> ToString(BudgetOf(e.len))])>>)
        /\ l' = l + 1
Finish == l = Len(Trace) + 1 /\ PrintT(<<"CONSUMED", ToJson([n |-> l - 1])>>) /\ UNCHANGED l
TSpec == TInit /\ [][Step \/ Finish]_l
=============================================================================
