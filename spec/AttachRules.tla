----------------------------- MODULE AttachRules -----------------------------
(* C16: which command set attaching selects, by peripheral device type (SPC-4 table 141) *)
EXTENDS Naturals, Sequences, FiniteSets, TLC

SetNames == {"spc", "sbc", "ssc", "smc", "mmc"}
\* the selection the property names; "" = the property only demands the primary commands
Named(t) == CASE t \in {0, 4, 7} -> "sbc"      \* direct access, write-once, optical memory
              [] t = 1 -> "ssc"                 \* sequential access
              [] t = 5 -> "mmc"                 \* CD/DVD
              [] t = 8 -> "smc"                 \* media changer
              [] OTHER -> ""
\* Commands the facade finds by operation code rather than by name, after an attach: SERVICE ACTION IN(16)
\* 9Eh (READ CAPACITY(16), GET LBA STATUS) is a block command (SBC-3 table 14); MAINTENANCE IN A3h (REPORT
\* TARGET PORT GROUPS, REPORT PRIORITY) is SPC's and is carried by SBC / SSC / SMC, while MMC gives A3h to
\* SEND KEY.  What a probe sends depends on the set selected for THIS device only.
Offers(set, code) == CASE code = "9E" -> set = "sbc"
                       [] code = "A3" -> set \in {"spc", "sbc", "ssc", "smc"}
                       [] OTHER -> FALSE
CodeByte(code) == IF code = "9E" THEN 158 ELSE 163
ProbeExpected(set, code) == IF Offers(set, code) THEN <<CodeByte(code)>> ELSE <<>>
\* the one standard INQUIRY an attach sends: 12h, EVPD 0, page code 0, allocation length >= 5, control 0
IsStdInquiry(cdb) == Len(cdb) = 6 /\ cdb[1] = 18 /\ cdb[2] % 2 = 0 /\ cdb[3] = 0 /\ (cdb[4] * 256 + cdb[5]) >= 5 /\ cdb[6] = 0
=============================================================================
