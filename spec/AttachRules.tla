----------------------------- MODULE AttachRules -----------------------------
(* C16: which command set attaching selects, by peripheral device type (SPC-4 table 141) *)
EXTENDS Naturals, Sequences, FiniteSets, TLC

SetNames == {"spc", "sbc", "ssc", "smc", "mmc"}
\* the selection the property names; "" = the property only demands the primary commands
Named(t) == CASE t \in {0, 4, 7} -> "sbc"      \* direct access, write-once, optical memory
              [] t = 1 -> "ssc"                 \* sequential access
              [] t = 5 -> "mmc"                 \* CD/DVD
              [] t = 8 -> "smc"                 \* media changer
              [] OTHER -> ""
\* the one standard INQUIRY an attach sends: 12h, EVPD 0, page code 0, allocation length >= 5, control 0
IsStdInquiry(cdb) == Len(cdb) = 6 /\ cdb[1] = 18 /\ cdb[2] % 2 = 0 /\ cdb[3] = 0 /\ (cdb[4] * 256 + cdb[5]) >= 5 /\ cdb[6] = 0
=============================================================================
