SPECIFICATION Spec
CONSTANTS
  MaxLen = 3
  Tr = "iscsi"
INVARIANT TypeOK
INVARIANT RefusedSendsNothing
PROPERTY SetFollowsAttach
CHECK_DEADLOCK FALSE
