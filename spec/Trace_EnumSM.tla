---------------------------- MODULE Trace_EnumSM ----------------------------
(***************************************************************************)
(* events:  [op |-> "reset"]                                                 *)
(*          [op |-> "new", e, items]            enumeration e built from the  *)
(*                                              mapping `items`; items also   *)
(*                                              is the observed projection    *)
(*          [op, e, name, v, res, items]        add / remove / get / rev /    *)
(*                                              keys with the result and the  *)
(*                                              ordered projection afterwards *)
(*          for every event `others` = projections of all other enumerations  *)
(***************************************************************************)
EXTENDS EnumRules, Json, IOUtils
Trace == JsonDeserialize(IOEnv.TRACE_FILE)
VARIABLES l, en       \* en: function enumeration id -> sequence model

Pairs(items) == [i \in 1..Len(items) |-> <<items[i][1], items[i][2]>>]
Same(s, items) == Len(s) = Len(items) /\ \A i \in 1..Len(s) : s[i][1] = items[i][1] /\ EqV(s[i][2], items[i][2])

Expected(e, s) ==     \* <<result, state after>>
    CASE e.op = "add"    -> IF Has(s, e.name) THEN <<"KeyError", s>> ELSE <<"ok", AddTo(s, e.name, e.v)>>
      [] e.op = "remove" -> IF Has(s, e.name) THEN <<"ok", RemoveFrom(s, e.name)>> ELSE <<"KeyError", s>>
      [] e.op = "get"    -> <<IF Has(s, e.name) THEN Canon(ValueOf(s, e.name)) ELSE 0, s>>
      [] e.op = "rev"    -> <<Rev(s, e.v), s>>
      [] e.op = "keys"   -> <<KeysSeq(s), s>>

Others(e) == \A k \in DOMAIN en : (k # e.e /\ k \in DOMAIN e.others) => Same(en[k], e.others[k])

TInit == l = 1 /\ en = [x \in {} |-> <<>>]
Step ==
    /\ l <= Len(Trace)
    /\ LET e == Trace[l] IN
       IF e.op = "reset" THEN en' = [x \in {} |-> <<>>]
       ELSE IF e.op = "new" THEN
            \* what the enumeration holds right after it was built is the mapping it was given, in that order
            /\ (IF "given" \notin DOMAIN e \/ Same(Pairs(e.given), e.items) THEN TRUE
                ELSE PrintT(<<"VERDICT", ToJson([i |-> l, clause |-> "AgreesWithDictionary", detail |-> ToJson(e.given)])>>))
            /\ (IF Others(e) THEN TRUE
                ELSE PrintT(<<"VERDICT", ToJson([i |-> l, clause |-> "NoCrossTalk", detail |-> "new"])>>))
            /\ en' = [k \in DOMAIN en \cup {e.e} |-> IF k = e.e THEN Pairs(e.items) ELSE en[k]]
       ELSE LET x == Expected(e, en[e.e]) IN
            /\ (IF e.res = x[1] THEN TRUE
                ELSE PrintT(<<"VERDICT", ToJson([i |-> l, clause |-> (CASE e.op = "rev" -> "RevSound"
                                [] e.op = "keys" -> "KeysAreNames" [] e.op = "get" -> "NamesCarryValues"
                                [] OTHER -> "RefusalsAsDictionary"), detail |-> ToJson(x[1])])>>))
            /\ (IF Same(x[2], e.items) THEN TRUE
                ELSE PrintT(<<"VERDICT", ToJson([i |-> l, clause |-> "AgreesWithDictionary", detail |-> ToJson(x[2])])>>))
            /\ (IF Others(e) THEN TRUE
                ELSE PrintT(<<"VERDICT", ToJson([i |-> l, clause |-> "NoCrossTalk", detail |-> e.op])>>))
            \* continue from the observed state so that one rejection does not cascade
            /\ en' = [en EXCEPT ![e.e] = Pairs(e.items)]
    /\ l' = l + 1
Finish == l = Len(Trace) + 1 /\ PrintT(<<"CONSUMED", ToJson([n |-> l - 1])>>) /\ UNCHANGED <<l, en>>
TSpec == TInit /\ [][Step \/ Finish]_<<l, en>>
=============================================================================
