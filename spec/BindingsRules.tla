--------------------------- MODULE BindingsRules ---------------------------
(***************************************************************************)
(* C19: the transport bindings are optional; a missing one is refused, not   *)
(* half-used.  Device strings are sequences of character codes so that the   *)
(* prefix rules are part of the specification.                               *)
(***************************************************************************)
EXTENDS Naturals, Sequences, FiniteSets, TLC

Chars(s) == s      \* device strings arrive as sequences of byte values

Slash == 47
DevPrefix   == <<47, 100, 101, 118, 47>>                            \* "/dev/"
IscsiPrefix == <<105, 115, 99, 115, 105, 58, 47, 47>>               \* "iscsi://"

StartsWith(s, p) == Len(s) >= Len(p) /\ SubSeq(s, 1, Len(p)) = p

Kind(dev) == IF StartsWith(dev, DevPrefix) THEN "sg"
             ELSE IF StartsWith(dev, IscsiPrefix) THEN "iscsi"
             ELSE "other"

\* what init_device(dev, rw, initiator) must do under binding configuration cfg
\*   class   "SCSIDevice" | "ISCSIDevice" | "" (refused)
\*   exc     "" | "NotImplementedError"
\*   opens   sequence of <<path, mode>> passed to open()
\*   connects number of connect() calls; url / ctx given to the iSCSI binding
\* via: "init_device" (dispatch on the string) or the device class asked for directly ("SCSIDevice",
\* "ISCSIDevice"): a class only ever handles its own kind of string.
Routes == {"init_device", "SCSIDevice", "ISCSIDevice"}
Refusal == [class |-> "", exc |-> "NotImplementedError", opens |-> <<>>, connects |-> 0, url |-> <<>>, ctx |-> <<>>]
ExpectVia(via, cfg, dev, rw, initiator) ==
    LET k == Kind(dev) IN
    IF via = "SCSIDevice" /\ k # "sg" THEN Refusal
    ELSE IF via = "ISCSIDevice" /\ k # "iscsi" THEN Refusal
    ELSE IF k = "sg" /\ cfg.sgio THEN
        [class |-> "SCSIDevice", exc |-> "", opens |-> << <<dev, IF rw THEN "w+b" ELSE "rb">> >>,
         connects |-> 0, url |-> <<>>, ctx |-> <<>>]
    ELSE IF k = "iscsi" /\ cfg.iscsi THEN
        [class |-> "ISCSIDevice", exc |-> "", opens |-> <<>>, connects |-> 1, url |-> dev, ctx |-> initiator]
    ELSE Refusal
Expect(cfg, dev, rw, initiator) == ExpectVia("init_device", cfg, dev, rw, initiator)

Configs == [sgio : BOOLEAN, iscsi : BOOLEAN]

=============================================================================
