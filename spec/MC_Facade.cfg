SPECIFICATION Spec
CONSTANTS HasDecoder = TRUE
INVARIANT ExactlyOnce
INVARIANT AtMostOnce
INVARIANT DecodeAfterExecute
INVARIANT SameBuffers
INVARIANT NoDecodeOnError
CHECK_DEADLOCK FALSE
