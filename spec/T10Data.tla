------------------------------- MODULE T10Data -------------------------------
(***************************************************************************)
(* Parameter data formats (device -> initiator and initiator -> device),     *)
(* transcribed from SPC-4 r37, SBC-3 r36, SMC-3, MMC-6 as PARSERS: for a      *)
(* byte string laid out as the standard prescribes, Parse(fmt, buf) is the    *)
(* set of <<path, kind, value>> facts the standard lets one read off it        *)
(* (kind "n": big-endian number, "b": byte string), and WF(fmt, buf) says       *)
(* whether the embedded lengths are honest (every announced byte is there).    *)
(* Paths name the entries of the library's nested result ("luns/1/lun1",       *)
(* "mode_pages/0/swp", "x/#len" = number of list elements).  Offsets and bit     *)
(* positions are written in T10 notation from the standards' tables; the        *)
(* table number is quoted at each format.                                      *)
(***************************************************************************)
EXTENDS Bits

\* ---- helpers ----------------------------------------------------------------
Un(buf, off, n) == Strip(Sub(buf, off, n))                       \* n-byte big-endian number at off
Bs(buf, off, n) == Sub(buf, off, n)                              \* byte string
\* bit field: MSB is bit m of byte off, w bits wide (may continue into following bytes)
Fl(buf, off, m, w) == IF LastByte([b |-> off, m |-> m, w |-> w]) < Len(buf)
                     THEN Get(buf, [b |-> off, m |-> m, w |-> w]) ELSE <<>>
Nn(buf, off, n) == NatClamp(Sub(buf, off, n))                   \* small natural (clamped), for lengths
Nm(p, v) == <<p, "n", v>>
Bl(p, v) == <<p, "b", v>>
Cnt(p, k) == <<p \o "/#len", "n", NumOfNat(k)>>
Idx(p, i) == p \o "/" \o ToString(i)
Min(a, b) == IF a < b THEN a ELSE b

\* ---- READ CAPACITY (10)  SBC-3 table 65 ------------------------------------------
P_ReadCapacity10(b) == { Nm("returned_lba", Un(b, 0, 4)), Nm("block_length", Un(b, 4, 4)) }
Ok_ReadCapacity10(b) == Len(b) >= 8

\* ---- READ CAPACITY (16)  SBC-3 table 67 ------------------------------------------
P_ReadCapacity16(b) ==
    { Nm("returned_lba", Un(b, 0, 8)), Nm("block_length", Un(b, 8, 4)),
      Nm("p_type", Fl(b, 12, 3, 3)), Nm("prot_en", Fl(b, 12, 0, 1)),
      Nm("p_i_exponent", Fl(b, 13, 7, 4)), Nm("lbppbe", Fl(b, 13, 3, 4)),
      Nm("lbpme", Fl(b, 14, 7, 1)), Nm("lbprz", Fl(b, 14, 6, 1)), Nm("lowest_aligned_lba", Fl(b, 14, 5, 14)) }
Ok_ReadCapacity16(b) == Len(b) >= 32

\* ---- REPORT LUNS  SPC-4 table 287: LUN LIST LENGTH bytes 0-3 (n-7), LUNs from byte 8 -------
RL_count(b) == Min(Nn(b, 0, 4), IF Len(b) > 8 THEN Len(b) - 8 ELSE 0) \div 8
P_ReportLuns(b) ==
    { Cnt("luns", RL_count(b)) } \cup
    { Nm(Idx("luns", i) \o "/lun" \o ToString(i), Un(b, 8 + 8 * i, 8)) : i \in 0..(RL_count(b) - 1) }
Ok_ReportLuns(b) == Len(b) >= 8 /\ Nn(b, 0, 4) % 8 = 0 /\ Nn(b, 0, 4) + 8 <= Len(b)

\* ---- GET LBA STATUS  SBC-3 table 40: PARAMETER DATA LENGTH 0-3 (n-3), descriptors of 16 from byte 8
GLS_count(b) == LET pl == Nn(b, 0, 4) IN
                Min(IF pl >= 4 THEN pl - 4 ELSE 0, IF Len(b) > 8 THEN Len(b) - 8 ELSE 0) \div 16
P_GetLBAStatus(b) ==
    { Cnt("lbas", GLS_count(b)) } \cup
    UNION { { Nm(Idx("lbas", i) \o "/lba", Un(b, 8 + 16 * i, 8)),
              Nm(Idx("lbas", i) \o "/num_blocks", Un(b, 16 + 16 * i, 4)),
              Nm(Idx("lbas", i) \o "/p_status", Fl(b, 20 + 16 * i, 3, 4)) } : i \in 0..(GLS_count(b) - 1) }
Ok_GetLBAStatus(b) == Len(b) >= 8 /\ Nn(b, 0, 4) >= 4 /\ (Nn(b, 0, 4) - 4) % 16 = 0 /\ Nn(b, 0, 4) + 4 <= Len(b)

\* ---- standard INQUIRY data  SPC-4 table 139 -------------------------------------------
P_InquiryStd(b) ==
    { Nm("peripheral_qualifier", Fl(b, 0, 7, 3)), Nm("peripheral_device_type", Fl(b, 0, 4, 5)),
      Nm("rmb", Fl(b, 1, 7, 1)), Nm("version", Fl(b, 2, 7, 8)), Nm("normaca", Fl(b, 3, 5, 1)), Nm("hisup", Fl(b, 3, 4, 1)),
      Nm("response_data_format", Fl(b, 3, 3, 4)), Nm("additional_length", Fl(b, 4, 7, 8)),
      Nm("sccs", Fl(b, 5, 7, 1)), Nm("acc", Fl(b, 5, 6, 1)), Nm("tpgs", Fl(b, 5, 5, 2)), Nm("3pc", Fl(b, 5, 3, 1)),
      Nm("protect", Fl(b, 5, 0, 1)), Nm("encserv", Fl(b, 6, 6, 1)), Nm("vs", Fl(b, 6, 5, 1)), Nm("multip", Fl(b, 6, 4, 1)),
      Nm("addr16", Fl(b, 6, 0, 1)), Nm("wbus16", Fl(b, 7, 5, 1)), Nm("sync", Fl(b, 7, 4, 1)), Nm("cmdque", Fl(b, 7, 1, 1)),
      Nm("vs2", Fl(b, 7, 0, 1)),
      Bl("t10_vendor_identification", Bs(b, 8, 8)), Bl("product_identification", Bs(b, 16, 16)),
      Bl("product_revision_level", Bs(b, 32, 4)),
      Nm("clocking", Fl(b, 56, 3, 2)), Nm("qas", Fl(b, 56, 1, 1)), Nm("ius", Fl(b, 56, 0, 1)) }
\* the 36 bytes every device returns are the minimum; fields beyond what is present read as zero
Ok_InquiryStd(b) == Len(b) >= 36

\* ---- VPD pages: header SPC-4 7.8.1: qualifier/type byte 0, PAGE CODE byte 1, PAGE LENGTH bytes 2-3 (n-3)
VpdLen(b) == Min(Nn(b, 2, 2) + 4, Len(b))                    \* bytes of the page that are present
VpdHdr(b) == { Nm("peripheral_qualifier", Fl(b, 0, 7, 3)), Nm("peripheral_device_type", Fl(b, 0, 4, 5)),
               Nm("page_code", Fl(b, 1, 7, 8)) }
Ok_Vpd(b) == Len(b) >= 4 /\ Nn(b, 2, 2) + 4 <= Len(b)

\* 00h supported VPD pages (table 607): list of page codes from byte 4
P_Vpd00(b) == VpdHdr(b) \cup { Cnt("vpd_pages", VpdLen(b) - 4) }
              \cup { Nm(Idx("vpd_pages", i), Un(b, 4 + i, 1)) : i \in 0..(VpdLen(b) - 5) }
\* 80h unit serial number (table 609)
P_Vpd80(b) == VpdHdr(b) \cup { Bl("unit_serial_number", Bs(b, 4, VpdLen(b) - 4)) }
\* 86h extended INQUIRY data (table 577), page length 3Ch
P_Vpd86(b) == VpdHdr(b) \cup
    { Nm("activate_microcode", Fl(b, 4, 7, 2)), Nm("spt", Fl(b, 4, 5, 3)), Nm("grd_chk", Fl(b, 4, 2, 1)),
      Nm("app_chk", Fl(b, 4, 1, 1)), Nm("ref_chk", Fl(b, 4, 0, 1)),
      Nm("uask_sup", Fl(b, 5, 5, 1)), Nm("group_sup", Fl(b, 5, 4, 1)), Nm("prior_sup", Fl(b, 5, 3, 1)),
      Nm("headsup", Fl(b, 5, 2, 1)), Nm("ordsup", Fl(b, 5, 1, 1)), Nm("simpsup", Fl(b, 5, 0, 1)),
      Nm("wu_sup", Fl(b, 6, 3, 1)), Nm("crd_sup", Fl(b, 6, 2, 1)), Nm("nv_sup", Fl(b, 6, 1, 1)), Nm("v_sup", Fl(b, 6, 0, 1)),
      Nm("p_i_i_sup", Fl(b, 7, 4, 1)), Nm("luiclr", Fl(b, 7, 0, 1)), Nm("r_sup", Fl(b, 8, 4, 1)), Nm("cbcs", Fl(b, 8, 0, 1)),
      Nm("multi_it_nexus_microcode_download", Fl(b, 9, 3, 4)),
      Nm("extended_self_test_completion_minutes", Fl(b, 10, 7, 16)),
      Nm("poa_sup", Fl(b, 12, 7, 1)), Nm("hra_sup", Fl(b, 12, 6, 1)), Nm("vsa_sup", Fl(b, 12, 5, 1)),
      Nm("maximum_supported_sense_data_length", Fl(b, 13, 7, 8)) }
\* B0h block limits (SBC-3 table 185)
P_VpdB0(b) == VpdHdr(b) \cup
    { Nm("wsnz", Fl(b, 4, 0, 1)), Nm("max_caw_len", Fl(b, 5, 7, 8)), Nm("opt_xfer_len_gran", Fl(b, 6, 7, 16)),
      Nm("max_xfer_len", Fl(b, 8, 7, 32)), Nm("opt_xfer_len", Fl(b, 12, 7, 32)), Nm("max_pfetch_len", Fl(b, 16, 7, 32)),
      Nm("max_unmap_lba_count", Fl(b, 20, 7, 32)), Nm("max_unmap_bd_count", Fl(b, 24, 7, 32)),
      Nm("opt_unmap_gran", Fl(b, 28, 7, 32)), Nm("ugavalid", Fl(b, 32, 7, 1)),
      Nm("unmap_gran_alignment", Fl(b, 32, 6, 31)), Nm("max_ws_len", Fl(b, 36, 7, 64)) }
\* B1h block device characteristics (SBC-3 table 187)
P_VpdB1(b) == VpdHdr(b) \cup
    { Nm("medium_rotation_rate", Fl(b, 4, 7, 16)), Nm("product_type", Fl(b, 6, 7, 8)),
      Nm("wabereq", Fl(b, 7, 7, 2)), Nm("wacereq", Fl(b, 7, 5, 2)), Nm("nominal_form_factor", Fl(b, 7, 3, 4)),
      Nm("fuab", Fl(b, 8, 1, 1)), Nm("vbuls", Fl(b, 8, 0, 1)) }
\* B2h logical block provisioning (SBC-3 table 189); the library's key for LBPWS is "lpbws"
P_VpdB2(b) == VpdHdr(b) \cup
    { Nm("threshold_exponent", Fl(b, 4, 7, 8)), Nm("lbpu", Fl(b, 5, 7, 1)), Nm("lpbws", Fl(b, 5, 6, 1)),
      Nm("lbpws10", Fl(b, 5, 5, 1)), Nm("lbprz", Fl(b, 5, 2, 1)), Nm("anc_sup", Fl(b, 5, 1, 1)), Nm("dp", Fl(b, 5, 0, 1)),
      Nm("provisioning_type", Fl(b, 6, 2, 3)) }
\* 89h ATA Information (SAT-3 12.4.2, table 200): SAT vendor / product / revision identification at 8 / 16 / 32,
\* the 20-byte DEVICE SIGNATURE (a Register Device-to-Host FIS, SATA 3.x 10.5.6) at 36, COMMAND CODE at 56, and
\* the 512-byte IDENTIFY (PACKET) DEVICE data at 60, whose 16-bit words are stored low byte first (ACS-3 7.12.7):
\* word 0 general configuration (bit 15: 0 = ATA device, bit 2: response incomplete), word 2 specific
\* configuration, words 10-19 serial number, 23-26 firmware revision, 27-46 model number.
LeWord(b, off) == Strip(Bs(b, off + 1, 1) \o Bs(b, off, 1))
P_Vpd89(b) == VpdHdr(b) \cup
    { Bl("sat_vendor_identification", Bs(b, 8, 8)), Bl("sat_product_identification", Bs(b, 16, 16)),
      Bl("sat_product_rev_lvl", Bs(b, 32, 4)),
      Nm("signature/lba_low", Un(b, 40, 1)), Nm("signature/lba_mid", Un(b, 41, 1)), Nm("signature/lba_high", Un(b, 42, 1)),
      Nm("signature/device", Un(b, 43, 1)), Nm("signature/sector_count", Un(b, 48, 1)),
      Nm("identify/general_config/ata_device", Fl(b, 61, 7, 1)),
      Nm("identify/general_config/respose_incomplete", Fl(b, 60, 2, 1)),
      Nm("identify/specific_config", LeWord(b, 64)),
      Bl("identify/serial_number", Bs(b, 80, 20)), Bl("identify/firmware_rev", Bs(b, 106, 8)),
      Bl("identify/model_number", Bs(b, 114, 40)) }
Ok_Vpd89(b) == Ok_Vpd(b) /\ Nn(b, 2, 2) = 568
\* B3h referrals (SBC-3 table 193)
P_VpdB3(b) == VpdHdr(b) \cup
    { Nm("user_data_segment_size", Fl(b, 8, 7, 32)), Nm("user_data_segment_multiplier", Fl(b, 12, 7, 32)) }

\* 83h device identification (SPC-4 table 591/592): designation descriptors from byte 4, each
\* 4 bytes header (protocol id 0.7:4, code set 0.3:4, piv 1.7, association 1.5:2, type 1.3:4,
\* DESIGNATOR LENGTH byte 3) + designator
RECURSIVE DesigOffsets(_, _, _)
DesigOffsets(b, off, end) ==       \* offsets of the descriptors that lie wholly inside the page
    IF off + 4 > end THEN <<>>
    ELSE LET dl == Nn(b, off + 3, 1) IN
         IF off + 4 + dl > end THEN <<>> ELSE <<off>> \o DesigOffsets(b, off + 4 + dl, end)

\* the designator proper, by type (tables 594-607); d = designator bytes, p = path prefix
Designator(p, type, d) ==
    CASE type = 0 -> { Bl(p \o "/vendor_specific", d) }
      [] type = 1 -> { Bl(p \o "/t10_vendor_id", Bs(d, 0, 8)), Bl(p \o "/vendor_specific_id", Bs(d, 8, Len(d) - 8)) }
      [] type = 2 ->
           IF Len(d) = 8 THEN { Nm(p \o "/ieee_company_id", Un(d, 0, 3)), Bl(p \o "/vendor_specific_extension_id", Bs(d, 3, 5)) }
           ELSE IF Len(d) = 12 THEN { Nm(p \o "/ieee_company_id", Un(d, 0, 3)), Bl(p \o "/vendor_specific_extension_id", Bs(d, 3, 5)),
                                      Bl(p \o "/directory_id", Bs(d, 8, 4)) }
           ELSE IF Len(d) = 16 THEN { Bl(p \o "/identifier_extension", Bs(d, 0, 8)), Nm(p \o "/ieee_company_id", Un(d, 8, 3)),
                                      Bl(p \o "/vendor_specific_extension_id", Bs(d, 11, 5)) }
           ELSE {}
      [] type = 3 ->
           LET naa == NatOfNum(Fl(d, 0, 7, 4)) IN
           { Nm(p \o "/naa", Fl(d, 0, 7, 4)) } \cup
           (CASE naa = 2 -> { Nm(p \o "/vendor_specific_identifier_a", Fl(d, 0, 3, 12)), Nm(p \o "/ieee_company_id", Fl(d, 2, 7, 24)),
                              Nm(p \o "/vendor_specific_identifier_b", Fl(d, 5, 7, 24)) }
              [] naa = 3 -> { Nm(p \o "/locally_administered_value", Fl(d, 0, 3, 60)) }
              [] naa = 5 -> { Nm(p \o "/ieee_company_id", Fl(d, 0, 3, 24)), Nm(p \o "/vendor_specific_identifier", Fl(d, 3, 3, 36)) }
              [] naa = 6 -> { Nm(p \o "/ieee_company_id", Fl(d, 0, 3, 24)), Nm(p \o "/vendor_specific_identifier", Fl(d, 3, 3, 36)),
                              Nm(p \o "/vendor_specific_identifier_extension", Fl(d, 8, 7, 64)) }
              [] OTHER -> {})
      [] type = 4 -> { Nm(p \o "/relative_port", Fl(d, 2, 7, 16)) }
      [] type = 5 -> { Nm(p \o "/target_portal_group", Fl(d, 2, 7, 16)) }
      [] type = 6 -> { Nm(p \o "/logical_unit_group", Fl(d, 2, 7, 16)) }
      [] type = 7 -> { Bl(p \o "/md5_logical_identifier", Bs(d, 0, 16)) }
      [] type = 8 -> { Bl(p \o "/scsi_name_string", d) }
      [] type = 9 -> { Nm(p \o "/pci_express_routing_id", Fl(d, 0, 7, 16)) }
      [] OTHER -> {}

DesigDescr(b, off, p) ==
    LET piv == NatOfNum(Fl(b, off + 1, 7, 1))
        assoc == NatOfNum(Fl(b, off + 1, 5, 2))
        type == NatOfNum(Fl(b, off + 1, 3, 4))
        dl == Nn(b, off + 3, 1) IN
    { Nm(p \o "/code_set", Fl(b, off, 3, 4)), Nm(p \o "/piv", Fl(b, off + 1, 7, 1)),
      Nm(p \o "/association", Fl(b, off + 1, 5, 2)), Nm(p \o "/designator_type", Fl(b, off + 1, 3, 4)),
      Nm(p \o "/designator_length", Fl(b, off + 3, 7, 8)) }
    \cup (IF piv = 1 /\ assoc \in {1, 2} THEN { Nm(p \o "/protocol_identifier", Fl(b, off, 7, 4)) } ELSE {})
    \cup Designator(p \o "/designator", type, Bs(b, off + 4, dl))

P_Vpd83(b) ==
    LET offs == DesigOffsets(b, 4, VpdLen(b)) IN
    VpdHdr(b) \cup { Cnt("designator_descriptors", Len(offs)) }
    \cup UNION { DesigDescr(b, offs[i], Idx("designator_descriptors", i - 1)) : i \in 1..Len(offs) }
Ok_Vpd83(b) == Ok_Vpd(b) /\ LET offs == DesigOffsets(b, 4, VpdLen(b)) IN
                  IF offs = <<>> THEN VpdLen(b) = 4
                  ELSE offs[Len(offs)] + 4 + Nn(b, offs[Len(offs)] + 3, 1) = VpdLen(b)

\* ---- mode parameter data (SPC-4 7.5): header(6) table 452, header(10) table 453, page formats 454/455
ModePage(p, code, sub, d) ==          \* d = bytes after the page header
    IF code = 10 /\ sub = 256 THEN       \* control mode page 0Ah (table 457)
        { Nm(p \o "/tst", Fl(d, 0, 7, 3)), Nm(p \o "/tmf_only", Fl(d, 0, 4, 1)), Nm(p \o "/dpicz", Fl(d, 0, 3, 1)),
          Nm(p \o "/d_sense", Fl(d, 0, 2, 1)), Nm(p \o "/gltsd", Fl(d, 0, 1, 1)), Nm(p \o "/rlec", Fl(d, 0, 0, 1)),
          Nm(p \o "/queue_algorithm_modifier", Fl(d, 1, 7, 4)), Nm(p \o "/nuar", Fl(d, 1, 3, 1)), Nm(p \o "/qerr", Fl(d, 1, 2, 2)),
          Nm(p \o "/vs", Fl(d, 2, 7, 1)), Nm(p \o "/rac", Fl(d, 2, 6, 1)), Nm(p \o "/ua_intlck_ctrl", Fl(d, 2, 5, 2)),
          Nm(p \o "/swp", Fl(d, 2, 3, 1)), Nm(p \o "/ato", Fl(d, 3, 7, 1)), Nm(p \o "/tas", Fl(d, 3, 6, 1)),
          Nm(p \o "/atmpe", Fl(d, 3, 5, 1)), Nm(p \o "/rwwp", Fl(d, 3, 4, 1)), Nm(p \o "/autoload_mode", Fl(d, 3, 2, 3)),
          Nm(p \o "/busy_timeout_period", Fl(d, 6, 7, 16)), Nm(p \o "/extended_self_test_completion_time", Fl(d, 8, 7, 16)) }
    ELSE IF code = 10 /\ sub = 1 THEN   \* control extension 0Ah/01h (table 459)
        { Nm(p \o "/tcmos", Fl(d, 0, 2, 1)), Nm(p \o "/scsip", Fl(d, 0, 1, 1)), Nm(p \o "/ialuae", Fl(d, 0, 0, 1)),
          Nm(p \o "/initial_command_priority", Fl(d, 1, 3, 4)), Nm(p \o "/maximum_sense_data_length", Fl(d, 2, 7, 8)) }
    ELSE IF code = 2 /\ sub = 256 THEN   \* disconnect-reconnect 02h (table 460)
        { Nm(p \o "/buffer_full_ratio", Fl(d, 0, 7, 8)), Nm(p \o "/buffer_empty_ratio", Fl(d, 1, 7, 8)),
          Nm(p \o "/bus_inactivity_limit", Fl(d, 2, 7, 16)), Nm(p \o "/disconnect_time_limit", Fl(d, 4, 7, 16)),
          Nm(p \o "/connect_time_limit", Fl(d, 6, 7, 16)), Nm(p \o "/maximum_burst_size", Fl(d, 8, 7, 16)),
          Nm(p \o "/emdp", Fl(d, 10, 7, 1)), Nm(p \o "/fair_arbitration", Fl(d, 10, 6, 3)), Nm(p \o "/dimm", Fl(d, 10, 3, 1)),
          Nm(p \o "/dtdc", Fl(d, 10, 2, 3)), Nm(p \o "/first_burst_size", Fl(d, 12, 7, 16)) }
    ELSE IF code = 29 THEN              \* element address assignment 1Dh (SMC-3 table 42)
        { Nm(p \o "/first_medium_transport_element_address", Fl(d, 0, 7, 16)), Nm(p \o "/num_medium_transport_elements", Fl(d, 2, 7, 16)),
          Nm(p \o "/first_storage_element_address", Fl(d, 4, 7, 16)), Nm(p \o "/num_storage_elements", Fl(d, 6, 7, 16)),
          Nm(p \o "/first_import_element_address", Fl(d, 8, 7, 16)), Nm(p \o "/num_import_elements", Fl(d, 10, 7, 16)),
          Nm(p \o "/first_data_transfer_element_address", Fl(d, 12, 7, 16)), Nm(p \o "/num_data_transfer_elements", Fl(d, 14, 7, 16)) }
    ELSE {}

\* one page starting at off: returns <<facts, total size>>
PageAt(b, off, p) ==
    LET spf == NatOfNum(Fl(b, off, 6, 1))
        code == NatOfNum(Fl(b, off, 5, 6))
        hdr == IF spf = 1 THEN 4 ELSE 2
        plen == IF spf = 1 THEN Nn(b, off + 2, 2) ELSE Nn(b, off + 1, 1)
        sub == IF spf = 1 THEN Nn(b, off + 1, 1) ELSE 256 IN
    << { Nm(p \o "/ps", Fl(b, off, 7, 1)), Nm(p \o "/spf", Fl(b, off, 6, 1)), Nm(p \o "/page_code", Fl(b, off, 5, 6)) }
       \cup (IF spf = 1 THEN { Nm(p \o "/sub_page_code", Fl(b, off + 1, 7, 8)) } ELSE {})
       \cup ModePage(p, code, sub, Bs(b, off + hdr, plen)),
       hdr + plen >>

RECURSIVE PageOffsets(_, _, _)
PageOffsets(b, off, end) ==
    IF off + 2 > end THEN <<>>
    ELSE LET sz == PageAt(b, off, "")[2] IN
         IF off + sz > end THEN <<>> ELSE <<off>> \o PageOffsets(b, off + sz, end)

ModeData(b, hdrlen, mdl, bdl) ==         \* mdl = bytes of mode data present (header included)
    LET end == Min(mdl, Len(b))
        offs == PageOffsets(b, hdrlen + bdl, end) IN
    { Cnt("mode_pages", Len(offs)) } \cup UNION { PageAt(b, offs[i], Idx("mode_pages", i - 1))[1] : i \in 1..Len(offs) }

P_ModeSense6(b) ==
    { Nm("medium_type", Fl(b, 1, 7, 8)), Nm("device_specific_parameter", Fl(b, 2, 7, 8)) }
    \cup ModeData(b, 4, Nn(b, 0, 1) + 1, Nn(b, 3, 1))
Ok_ModeSense6(b) == Len(b) >= 4 /\ Nn(b, 0, 1) + 1 <= Len(b) /\ 4 + Nn(b, 3, 1) <= Nn(b, 0, 1) + 1
P_ModeSense10(b) ==
    { Nm("medium_type", Fl(b, 2, 7, 8)), Nm("device_specific_parameter", Fl(b, 3, 7, 8)), Nm("longlba", Fl(b, 4, 0, 1)) }
    \cup ModeData(b, 8, Nn(b, 0, 2) + 2, Nn(b, 6, 2))
Ok_ModeSense10(b) == Len(b) >= 8 /\ Nn(b, 0, 2) + 2 <= Len(b) /\ 8 + Nn(b, 6, 2) <= Nn(b, 0, 2) + 2

\* ---- REPORT TARGET PORT GROUPS  SPC-4 tables 309-312 -------------------------------------
\* RETURN DATA LENGTH 0-3 (n-3). Length-only header: descriptors from byte 4. Extended header
\* (format type 1 in byte 4 bits 6-4): implicit transition time byte 5, descriptors from byte 8.
\* Group descriptor: 8 bytes + TARGET PORT COUNT x 4 bytes (relative target port id in bytes 2-3).
RECURSIVE TpgOffsets(_, _, _)
TpgOffsets(b, off, end) ==
    IF off + 8 > end THEN <<>>
    ELSE LET sz == 8 + 4 * Nn(b, off + 7, 1) IN
         IF off + sz > end THEN <<>> ELSE <<off>> \o TpgOffsets(b, off + sz, end)
TpgDescr(b, off, p) ==
    LET cnt == Nn(b, off + 7, 1) IN
    { Nm(p \o "/pref", Fl(b, off, 7, 1)), Nm(p \o "/asymmetric_access_state", Fl(b, off, 3, 4)),
      Nm(p \o "/t_sup", Fl(b, off + 1, 7, 1)), Nm(p \o "/o_sup", Fl(b, off + 1, 6, 1)), Nm(p \o "/u_sup", Fl(b, off + 1, 3, 1)),
      Nm(p \o "/s_sup", Fl(b, off + 1, 2, 1)), Nm(p \o "/an_sup", Fl(b, off + 1, 1, 1)), Nm(p \o "/ao_sup", Fl(b, off + 1, 0, 1)),
      Nm(p \o "/target_port_group", Fl(b, off + 2, 7, 16)), Nm(p \o "/status_code", Fl(b, off + 5, 7, 8)),
      Nm(p \o "/vendor", Fl(b, off + 6, 7, 8)), Nm(p \o "/target_port_count", Fl(b, off + 7, 7, 8)),
      Cnt(p \o "/target_ports", cnt) }
    \cup { Nm(Idx(p \o "/target_ports", j) \o "/relative_target_port_id", Fl(b, off + 8 + 4 * j + 2, 7, 16)) : j \in 0..(cnt - 1) }
P_Rtpg(b, ext) ==
    LET end == Min(Nn(b, 0, 4) + 4, Len(b))
        start == IF ext THEN 8 ELSE 4
        offs == TpgOffsets(b, start, end) IN
    (IF ext THEN { Nm("format_type", Fl(b, 4, 6, 3)), Nm("implicit_transition_time", Fl(b, 5, 7, 8)) } ELSE {})
    \cup { Cnt("target_port_group_descriptors", Len(offs)) }
    \cup UNION { TpgDescr(b, offs[i], Idx("target_port_group_descriptors", i - 1)) : i \in 1..Len(offs) }
Ok_Rtpg(b, ext) == Len(b) >= (IF ext THEN 8 ELSE 4) /\ Nn(b, 0, 4) + 4 <= Len(b)
                   /\ LET end == Nn(b, 0, 4) + 4  offs == TpgOffsets(b, IF ext THEN 8 ELSE 4, end) IN
                      IF offs = <<>> THEN end = (IF ext THEN 8 ELSE 4)
                      ELSE offs[Len(offs)] + 8 + 4 * Nn(b, offs[Len(offs)] + 7, 1) = end

\* ---- PERSISTENT RESERVE IN  SPC-4 tables 209-217 -------------------------------------------
P_PrinKeys(b) ==
    LET cnt == Min(Nn(b, 4, 4), IF Len(b) > 8 THEN Len(b) - 8 ELSE 0) \div 8 IN
    { Nm("pr_generation", Un(b, 0, 4)), Cnt("reservation_keys", cnt) }
    \cup { Nm(Idx("reservation_keys", i), Un(b, 8 + 8 * i, 8)) : i \in 0..(cnt - 1) }
Ok_PrinKeys(b) == Len(b) >= 8 /\ Nn(b, 4, 4) % 8 = 0 /\ Nn(b, 4, 4) + 8 <= Len(b)
P_PrinReservation(b) ==
    { Nm("pr_generation", Un(b, 0, 4)) }
    \cup (IF Nn(b, 4, 4) = 16 THEN { Nm("reservation_key", Un(b, 8, 8)), Nm("scope", Fl(b, 21, 7, 4)), Nm("type", Fl(b, 21, 3, 4)) }
          ELSE {})
Ok_PrinReservation(b) == Len(b) >= 8 /\ Nn(b, 4, 4) \in {0, 16} /\ Nn(b, 4, 4) + 8 <= Len(b)
P_PrinCapabilities(b) ==
    { Nm("rlr_c", Fl(b, 2, 7, 1)), Nm("crh", Fl(b, 2, 4, 1)), Nm("sip_c", Fl(b, 2, 3, 1)), Nm("atp_c", Fl(b, 2, 2, 1)),
      Nm("ptpl_c", Fl(b, 2, 0, 1)), Nm("tmv", Fl(b, 3, 7, 1)), Nm("allow_commands", Fl(b, 3, 6, 3)), Nm("ptpl_a", Fl(b, 3, 0, 1)),
      Nm("pr_type_mask/wr_ex_ar", Fl(b, 4, 7, 1)), Nm("pr_type_mask/ex_ac_ro", Fl(b, 4, 6, 1)),
      Nm("pr_type_mask/wr_ex_ro", Fl(b, 4, 5, 1)), Nm("pr_type_mask/ex_ac", Fl(b, 4, 3, 1)),
      Nm("pr_type_mask/wr_ex", Fl(b, 4, 1, 1)), Nm("pr_type_mask/ex_ac_ar", Fl(b, 5, 0, 1)) }
Ok_PrinCapabilities(b) == Len(b) >= 8 /\ Nn(b, 0, 2) = 8

\* iSCSI TransportID (SPC-4 tables 509 / 510): ADDITIONAL LENGTH at 2-3, then the NUL-terminated, NUL-padded
\* name; TPID FORMAT 01b appends the separator ",i,0x" and the initiator session id to the name
RECURSIVE UpToNul(_)
UpToNul(d) == IF d = <<>> \/ d[1] = 0 THEN <<>> ELSE <<d[1]>> \o UpToNul(Tail(d))
IsidSep == <<44, 105, 44, 48, 120>>
SepAt(t) == LET c == {i \in 1..Len(t) : i + 4 <= Len(t) /\ SubSeq(t, i, i + 4) = IsidSep} IN
            IF c = {} THEN 0 ELSE CHOOSE i \in c : \A j \in c : i <= j
IscsiId(p, d) ==
    LET txt == UpToNul(Bs(d, 4, Nn(d, 2, 2)))  k == SepAt(txt) IN
    IF NatOfNum(Fl(d, 0, 7, 2)) = 1 /\ k > 0
    THEN { Bl(p \o "/iscsi_name", SubSeq(txt, 1, k - 1)), Bl(p \o "/iscsi_initiator_session_id", SubSeq(txt, k + 5, Len(txt))) }
    ELSE { Bl(p \o "/iscsi_name", txt) }
\* TransportID (SPC-4 7.6.4): format 0.7:2, protocol 0.3:4; by protocol
TransportId(p, d) ==
    LET proto == NatOfNum(Fl(d, 0, 3, 4))  fmt == NatOfNum(Fl(d, 0, 7, 2)) IN
    { Nm(p \o "/tpid_format", Fl(d, 0, 7, 2)), Nm(p \o "/protocol_id", Fl(d, 0, 3, 4)) } \cup
    (CASE proto = 0 -> { Bl(p \o "/n_port_name", Bs(d, 8, 8)) }
       [] proto = 3 -> { Bl(p \o "/eui64_name", Bs(d, 8, 8)) }
       [] proto = 4 -> { Bl(p \o "/initiator_port_identifier", Bs(d, 8, 16)) }
       [] proto = 6 -> { Bl(p \o "/sas_address", Bs(d, 4, 8)) }
       [] proto = 5 -> IscsiId(p, d)
       [] OTHER -> {})
\* size of a TransportID starting at d[0]: iSCSI (protocol 5) ADDITIONAL LENGTH bytes 2-3 (n-3), others 24
TidSize(d) == IF NatOfNum(Fl(d, 0, 3, 4)) = 5 THEN Nn(d, 2, 2) + 4 ELSE 24

RECURSIVE FullStatusOffsets(_, _, _)
FullStatusOffsets(b, off, end) ==
    IF off + 24 > end THEN <<>>
    ELSE LET sz == 24 + Nn(b, off + 20, 4) IN
         IF off + sz > end THEN <<>> ELSE <<off>> \o FullStatusOffsets(b, off + sz, end)
P_PrinFullStatus(b) ==
    LET end == Min(Nn(b, 4, 4) + 8, Len(b))
        offs == FullStatusOffsets(b, 8, end) IN
    { Nm("pr_generation", Un(b, 0, 4)), Cnt("full_status", Len(offs)) } \cup
    UNION { LET o == offs[i]  p == Idx("full_status", i - 1) IN
            { Nm(p \o "/reservation_key", Un(b, o, 8)), Nm(p \o "/all_tg_pt", Fl(b, o + 12, 1, 1)),
              Nm(p \o "/r_holder", Fl(b, o + 12, 0, 1)), Nm(p \o "/scope", Fl(b, o + 13, 7, 4)), Nm(p \o "/type", Fl(b, o + 13, 3, 4)),
              Nm(p \o "/relative_target_port_id", Fl(b, o + 18, 7, 16)) }
            \cup (IF Nn(b, o + 20, 4) > 0 THEN TransportId(p \o "/transport_id", Bs(b, o + 24, Nn(b, o + 20, 4))) ELSE {})
          : i \in 1..Len(offs) }
Ok_PrinFullStatus(b) == Len(b) >= 8 /\ Nn(b, 4, 4) + 8 <= Len(b)
                        /\ LET end == Nn(b, 4, 4) + 8  offs == FullStatusOffsets(b, 8, end) IN
                           IF offs = <<>> THEN end = 8
                           ELSE offs[Len(offs)] + 24 + Nn(b, offs[Len(offs)] + 20, 4) = end

\* ---- READ DISC INFORMATION  MMC-6 tables 369, 375, 376 --------------------------------------
P_Rdi(b) ==
    LET t == NatOfNum(Fl(b, 2, 7, 3)) IN
    { Nm("disc_information_length", Fl(b, 0, 7, 16)), Nm("disc_information_data_type", Fl(b, 2, 7, 3)) } \cup
    (CASE t = 0 ->
        { Nm("erasable", Fl(b, 2, 4, 1)), Nm("state_of_last_session", Fl(b, 2, 3, 2)), Nm("disc_status", Fl(b, 2, 1, 2)),
          Nm("number_of_first_track_on_disc", Fl(b, 3, 7, 8)),
          Nm("number_of_sessions", <<Nn(b, 9, 1), Nn(b, 4, 1)>>),
          Nm("first_track_number_in_last_session", <<Nn(b, 10, 1), Nn(b, 5, 1)>>),
          Nm("last_track_number_in_last_session", <<Nn(b, 11, 1), Nn(b, 6, 1)>>),
          Nm("did_v", Fl(b, 7, 7, 1)), Nm("dbc_v", Fl(b, 7, 6, 1)), Nm("uru", Fl(b, 7, 5, 1)), Nm("dac_v", Fl(b, 7, 4, 1)),
          Nm("legacy", Fl(b, 7, 2, 1)), Nm("bg_format_status", Fl(b, 7, 1, 2)), Nm("disc_type", Fl(b, 8, 7, 8)),
          Nm("disc_identification", Fl(b, 12, 7, 32)),
          Bl("last_session_lead_in_start_address", Bs(b, 16, 4)), Bl("last_possible_lead_out_start_address", Bs(b, 20, 4)),
          Bl("disc_bar_code", Bs(b, 24, 8)), Nm("disc_application_code", Fl(b, 32, 7, 8)), Nm("number_of_opc_tables", Fl(b, 33, 7, 8)) }
       [] t = 1 ->
        { Nm("maximum_possible_number_of_the_tracks", Fl(b, 4, 7, 16)), Nm("number_of_the_assigned_tracks", Fl(b, 6, 7, 16)),
          Nm("maximum_possible_number_of_appendable_tracks", Fl(b, 8, 7, 16)), Nm("current_number_of_appendable_tracks", Fl(b, 10, 7, 16)) }
       [] t = 2 ->
        { Nm("remaining_pow_replacements", Fl(b, 4, 7, 32)), Nm("remaining_pow_reallocation_map_entries", Fl(b, 8, 7, 32)),
          Nm("number_of_remaining_pow_updates", Fl(b, 12, 7, 32)) }
       [] OTHER -> {})
Ok_Rdi(b) == Len(b) >= 34 /\ NatOfNum(Fl(b, 2, 7, 3)) \in {0, 1, 2}

\* ---- READ ELEMENT STATUS  SMC-3 tables 23-26 --------------------------------------------------
\* header: first element address 0-1, number of elements 2-3, BYTE COUNT OF REPORT 5-7; element status
\* page: element type 0.3:4, pvoltag 1.7, avoltag 1.6, ELEMENT DESCRIPTOR LENGTH 2-3, BYTE COUNT OF
\* DESCRIPTOR DATA 5-7; descriptors of ELEMENT DESCRIPTOR LENGTH bytes each
RECURSIVE EsPageOffsets(_, _, _)
EsPageOffsets(b, off, end) ==
    IF off + 8 > end THEN <<>>
    ELSE LET sz == 8 + Nn(b, off + 5, 3) IN
         IF off + sz > end THEN <<>> ELSE <<off>> \o EsPageOffsets(b, off + sz, end)
EsDescr(b, o, p, etype, pv, av) ==
    { Nm(p \o "/element_address", Fl(b, o, 7, 16)), Nm(p \o "/except", Fl(b, o + 2, 2, 1)), Nm(p \o "/full", Fl(b, o + 2, 0, 1)),
      Nm(p \o "/additional_sense_code", Fl(b, o + 4, 7, 8)), Nm(p \o "/additional_sense_code_qualifier", Fl(b, o + 5, 7, 8)),
      Nm(p \o "/svalid", Fl(b, o + 9, 7, 1)), Nm(p \o "/invert", Fl(b, o + 9, 6, 1)), Nm(p \o "/ed", Fl(b, o + 9, 3, 1)),
      Nm(p \o "/medium_type", Fl(b, o + 9, 2, 3)), Nm(p \o "/source_storage_element_address", Fl(b, o + 10, 7, 16)) }
    \cup (IF etype \in {2, 3, 4} THEN { Nm(p \o "/access", Fl(b, o + 2, 3, 1)) } ELSE {})
    \cup (IF etype = 3 THEN { Nm(p \o "/oir", Fl(b, o + 2, 7, 1)), Nm(p \o "/cmc", Fl(b, o + 2, 6, 1)), Nm(p \o "/inenab", Fl(b, o + 2, 5, 1)),
                              Nm(p \o "/exenab", Fl(b, o + 2, 4, 1)), Nm(p \o "/impexp", Fl(b, o + 2, 1, 1)) } ELSE {})
    \cup (IF pv = 1 THEN { Bl(p \o "/primary_volume_tag", Bs(b, o + 12, 36)) } ELSE {})
    \cup (IF av = 1 THEN { Bl(p \o "/alternate_volume_tag", Bs(b, o + 12 + 36 * pv, 36)) } ELSE {})
EsPage(b, o, p) ==
    LET etype == NatOfNum(Fl(b, o, 3, 4))  pv == NatOfNum(Fl(b, o + 1, 7, 1))  av == NatOfNum(Fl(b, o + 1, 6, 1))
        edl == Nn(b, o + 2, 2)  bc == Nn(b, o + 5, 3)
        cnt == IF edl = 0 THEN 0 ELSE bc \div edl IN
    { Nm(p \o "/element_type", Fl(b, o, 3, 4)), Nm(p \o "/pvoltag", Fl(b, o + 1, 7, 1)), Nm(p \o "/avoltag", Fl(b, o + 1, 6, 1)),
      Cnt(p \o "/element_descriptors", cnt) }
    \cup UNION { EsDescr(b, o + 8 + edl * j, Idx(p \o "/element_descriptors", j), etype, pv, av) : j \in 0..(cnt - 1) }
P_ReadElementStatus(b) ==
    LET end == Min(Nn(b, 5, 3) + 8, Len(b))
        offs == EsPageOffsets(b, 8, end) IN
    { Nm("first_element_address", Fl(b, 0, 7, 16)), Nm("num_elements", Fl(b, 2, 7, 16)), Cnt("element_status_pages", Len(offs)) }
    \cup UNION { EsPage(b, offs[i], Idx("element_status_pages", i - 1)) : i \in 1..Len(offs) }
Ok_ReadElementStatus(b) ==
    /\ Len(b) >= 8 /\ Nn(b, 5, 3) + 8 <= Len(b)
    /\ LET end == Nn(b, 5, 3) + 8  offs == EsPageOffsets(b, 8, end) IN
       /\ (IF offs = <<>> THEN end = 8 ELSE offs[Len(offs)] + 8 + Nn(b, offs[Len(offs)] + 5, 3) = end)
       /\ \A i \in 1..Len(offs) :
            LET o == offs[i]  edl == Nn(b, o + 2, 2)  bc == Nn(b, o + 5, 3)
                need == 12 + 36 * NatOfNum(Fl(b, o + 1, 7, 1)) + 36 * NatOfNum(Fl(b, o + 1, 6, 1)) IN
            (bc = 0 \/ (edl >= need /\ bc % edl = 0))

\* ---- REPORT PRIORITY  SPC-4 tables 297-298: PRIORITY PARAMETER DATA LENGTH 0-3 (n-3), descriptors from
\* byte 4: current priority 0.3:4, relative target port id 2-3, ADDITIONAL DESCRIPTOR LENGTH 6-7, TransportID from 8
RECURSIVE RpOffsets(_, _, _)
RpOffsets(b, off, end) ==
    IF off + 8 > end THEN <<>>
    ELSE LET sz == 8 + Nn(b, off + 6, 2) IN
         IF off + sz > end THEN <<>> ELSE <<off>> \o RpOffsets(b, off + sz, end)
P_ReportPriority(b) ==
    LET end == Min(Nn(b, 0, 4) + 4, Len(b))  offs == RpOffsets(b, 4, end) IN
    { Cnt("priority_descriptors", Len(offs)) } \cup
    UNION { { Nm(Idx("priority_descriptors", i - 1) \o "/current_priority", Fl(b, offs[i], 3, 4)),
              Nm(Idx("priority_descriptors", i - 1) \o "/rtpi", Fl(b, offs[i] + 2, 7, 16)),
              Nm(Idx("priority_descriptors", i - 1) \o "/adlen", Un(b, offs[i] + 6, 2)),
              Bl(Idx("priority_descriptors", i - 1) \o "/transport_id", Bs(b, offs[i] + 8, Nn(b, offs[i] + 6, 2))) } : i \in 1..Len(offs) }
Ok_ReportPriority(b) == Len(b) >= 4 /\ Nn(b, 0, 4) + 4 <= Len(b)
                        /\ LET end == Nn(b, 0, 4) + 4  offs == RpOffsets(b, 4, end) IN
                           IF offs = <<>> THEN end = 4 ELSE offs[Len(offs)] + 8 + Nn(b, offs[Len(offs)] + 6, 2) = end

\* =========================== parameter lists sent to the device (C05) ===========================
\* For data-out lists every embedded length must be EXACT: Exact(fmt, b).

\* MODE SELECT parameter list = mode parameter header + block descriptors + pages (SPC-4 7.5.4); the
\* library writes MODE DATA LENGTH as in MODE SENSE data (n-0 / n-1); a value of 0 (reserved for
\* MODE SELECT) is accepted as well
PagesEnd(b, hdrlen, bdl) ==
    LET offs == PageOffsets(b, hdrlen + bdl, Len(b)) IN
    IF offs = <<>> THEN hdrlen + bdl ELSE offs[Len(offs)] + PageAt(b, offs[Len(offs)], "")[2]
Exact_ModeSelect6(b) == Len(b) >= 4 /\ Nn(b, 0, 1) \in {0, Len(b) - 1} /\ PagesEnd(b, 4, Nn(b, 3, 1)) = Len(b)
Exact_ModeSelect10(b) == Len(b) >= 8 /\ Nn(b, 0, 2) \in {0, Len(b) - 2} /\ PagesEnd(b, 8, Nn(b, 6, 2)) = Len(b)
P_ModeSelect6(b) == { Nm("medium_type", Fl(b, 1, 7, 8)), Nm("device_specific_parameter", Fl(b, 2, 7, 8)) }
                    \cup ModeData(b, 4, Len(b), Nn(b, 3, 1))
P_ModeSelect10(b) == { Nm("medium_type", Fl(b, 2, 7, 8)), Nm("device_specific_parameter", Fl(b, 3, 7, 8)), Nm("longlba", Fl(b, 4, 0, 1)) }
                     \cup ModeData(b, 8, Len(b), Nn(b, 6, 2))

\* iSCSI TransportID (SPC-4 table 509/510): ADDITIONAL LENGTH bytes 2-3 (n-3), name from byte 4,
\* NUL-terminated and NUL-padded to a multiple of 4; format 01b appends ",i,0x" and the ISID
TransportIdOut(p, d) ==
    TransportId(p, d) \cup
    (IF NatOfNum(Fl(d, 0, 3, 4)) = 5 THEN { Bl(p \o "/iscsi_text", UpToNul(Bs(d, 4, Nn(d, 2, 2)))) } ELSE {})
Exact_Tid(d) ==
    IF NatOfNum(Fl(d, 0, 3, 4)) = 5
    THEN LET al == Nn(d, 2, 2)  txt == UpToNul(Bs(d, 4, al)) IN
         /\ Len(d) = al + 4 /\ al % 4 = 0 /\ Len(txt) < al /\ al - Len(txt) <= 4      \* terminated, minimally padded
         /\ \A i \in (4 + Len(txt) + 1)..Len(d) : d[i] = 0
    ELSE Len(d) = 24

\* PERSISTENT RESERVE OUT parameter lists (SPC-4 tables 224, 225, 227)
PrOutKeys(b) == { Nm("reservation_key", Un(b, 0, 8)), Nm("service_action_reservation_key", Un(b, 8, 8)) }
\* names starting with # are bits the standard reserves (or has made obsolete): no caller value maps to them,
\* so the judge demands that they read as zero
P_PrOutBasic(b) == PrOutKeys(b) \cup { Nm("spec_i_pt", Fl(b, 20, 3, 1)), Nm("all_tg_pt", Fl(b, 20, 2, 1)), Nm("aptpl", Fl(b, 20, 0, 1)),
                                     Nm("#obsolete 16-19", Un(b, 16, 4)), Nm("#reserved 20.7:4", Fl(b, 20, 7, 4)),
                                     Nm("#reserved 20.1", Fl(b, 20, 1, 1)), Nm("#reserved 21", Un(b, 21, 1)),
                                     Nm("#obsolete 22-23", Un(b, 22, 2)) }
Exact_PrOutBasic(b) == Len(b) = 24
RECURSIVE TidOffsets(_, _, _)
TidOffsets(b, off, end) == IF off + 4 > end THEN <<>>
                           ELSE LET sz == TidSize(Bs(b, off, end - off)) IN
                                IF off + sz > end THEN <<>> ELSE <<off>> \o TidOffsets(b, off + sz, end)
P_PrOutSpecIpt(b) ==
    LET offs == TidOffsets(b, 28, Len(b)) IN
    P_PrOutBasic(b) \cup { Cnt("transport_ids", Len(offs)) }
    \cup UNION { TransportIdOut(Idx("transport_ids", i - 1), Bs(b, offs[i], TidSize(Bs(b, offs[i], Len(b) - offs[i])))) : i \in 1..Len(offs) }
Exact_PrOutSpecIpt(b) ==
    /\ Len(b) >= 28 /\ Nn(b, 24, 4) = Len(b) - 28
    /\ LET offs == TidOffsets(b, 28, Len(b)) IN
       /\ (IF offs = <<>> THEN Len(b) = 28 ELSE offs[Len(offs)] + TidSize(Bs(b, offs[Len(offs)], Len(b) - offs[Len(offs)])) = Len(b))
       /\ \A i \in 1..Len(offs) : Exact_Tid(Bs(b, offs[i], TidSize(Bs(b, offs[i], Len(b) - offs[i]))))
P_PrOutRegMove(b) ==
    PrOutKeys(b) \cup { Nm("unreg", Fl(b, 17, 1, 1)), Nm("aptpl", Fl(b, 17, 0, 1)), Nm("relative_target_port_id", Fl(b, 18, 7, 16)),
                       Nm("#reserved 16", Un(b, 16, 1)), Nm("#reserved 17.7:6", Fl(b, 17, 7, 6)) }
    \cup (IF Len(b) > 24 THEN TransportIdOut("transport_id", Bs(b, 24, Len(b) - 24)) ELSE {})
Exact_PrOutRegMove(b) == Len(b) >= 24 /\ Nn(b, 20, 4) = Len(b) - 24 /\ (Len(b) > 24 => Exact_Tid(Bs(b, 24, Len(b) - 24)))

\* EXTENDED COPY parameter lists (SPC-4 6.4: LID1 table 105 ff.; LID4 table 108 ff.)
\* CSCD descriptor E4h (identification descriptor, 32 bytes, table 117): type code 0, LU ID TYPE 1.7:2,
\* PERIPHERAL DEVICE TYPE 1.4:5, RELATIVE INITIATOR PORT IDENTIFIER 2-3, CODE SET 4.3:4, ASSOCIATION 5.5:2,
\* DESIGNATOR TYPE 5.3:4, DESIGNATOR LENGTH 7, DESIGNATOR 8-27, device type specific 28-31 (block: PAD 28.2,
\* DISK BLOCK LENGTH 29-31)
Cscd(b, o, p, pk) ==
    { Nm(p \o "/descriptor_type_code", Fl(b, o, 7, 8)), Nm(p \o "/lu_id_type", Fl(b, o + 1, 7, 2)),
      Nm(p \o "/peripheral_device_type", Fl(b, o + 1, 4, 5)), Nm(p \o "/relative_initiator_port_identifier", Fl(b, o + 2, 7, 16)),
      Nm(p \o "/" \o pk \o "/code_set", Fl(b, o + 4, 3, 4)), Nm(p \o "/" \o pk \o "/association", Fl(b, o + 5, 5, 2)),
      Nm(p \o "/" \o pk \o "/designator_type", Fl(b, o + 5, 3, 4)),
      Nm(p \o "/device_type_specific_parameters/pad", Fl(b, o + 28, 2, 1)),
      Nm(p \o "/#reserved 28.7:5", Fl(b, o + 28, 7, 5)), Nm(p \o "/#reserved 28.1", Fl(b, o + 28, 1, 1)),
      \* reserved in the identification CSCD descriptor (unlike a VPD 83h designation descriptor, which has
      \* PROTOCOL IDENTIFIER and PIV there): no caller value maps to them, so they must read as zero
      Nm(p \o "/#reserved 4.7:4", Fl(b, o + 4, 7, 4)), Nm(p \o "/#reserved 5.7:2", Fl(b, o + 5, 7, 2)),
      Nm(p \o "/#reserved 6", Fl(b, o + 6, 7, 8)) }
    \cup Designator(p \o "/" \o pk \o "/designator", NatOfNum(Fl(b, o + 5, 3, 4)), Bs(b, o + 8, Nn(b, o + 7, 1)))
    \* device type specific parameters, bytes 28-31 (SPC-4 6.4.5.3 - 6.4.5.5): block devices (00h 04h 05h 07h 0Eh)
    \* PAD 28.2 and DISK BLOCK LENGTH; sequential access (01h) PAD, FIXED 28.0 and STREAM BLOCK LENGTH;
    \* processor (03h) PAD only
    \cup (LET dt == NatOfNum(Fl(b, o + 1, 4, 5)) IN
          IF dt = 1 THEN { Nm(p \o "/device_type_specific_parameters/fixed", Fl(b, o + 28, 0, 1)),
                           Nm(p \o "/device_type_specific_parameters/stream_block_length", Fl(b, o + 29, 7, 24)) }
          ELSE IF dt = 3 THEN { Nm(p \o "/#reserved 28.0", Fl(b, o + 28, 0, 1)), Nm(p \o "/#reserved 29-31", Un(b, o + 29, 3)) }
          ELSE { Nm(p \o "/#reserved 28.0", Fl(b, o + 28, 0, 1)),
                 Nm(p \o "/device_type_specific_parameters/disk_block_length", Fl(b, o + 29, 7, 24)) })
\* segment descriptors: 00h/01h/0Bh/0Ch block<->stream (24 bytes, tables 121/122): CAT 1.0, DESCRIPTOR LENGTH 2-3
\* (0014h), source 4-5, destination 6-7, STREAM DEVICE TRANSFER LENGTH 9-11, BLOCK DEVICE NUMBER OF BLOCKS 14-15,
\* BLOCK DEVICE LBA 16-23; 02h/0Dh block->block (28 bytes, table 123): DC 1.1 CAT 1.0, length 0018h, source,
\* destination, NUMBER OF BLOCKS 10-11, source LBA 12-19, destination LBA 20-27
SegSize(code) == IF code \in {2, 13} THEN 28 ELSE 24
Seg(b, o, p, sk, dk) ==
    LET code == Nn(b, o, 1) IN
    { Nm(p \o "/descriptor_type_code", Fl(b, o, 7, 8)), Nm(p \o "/cat", Fl(b, o + 1, 0, 1)),
      Nm(p \o "/" \o sk, Fl(b, o + 4, 7, 16)), Nm(p \o "/" \o dk, Fl(b, o + 6, 7, 16)),
      Nm(p \o "/#reserved 8", Un(b, o + 8, 1)) } \cup
    (IF code \in {2, 13}
     THEN { Nm(p \o "/dc", Fl(b, o + 1, 1, 1)), Nm(p \o "/#reserved 1.7:6", Fl(b, o + 1, 7, 6)), Nm(p \o "/#reserved 9", Un(b, o + 9, 1)), Nm(p \o "/block_device_number_of_blocks", Fl(b, o + 10, 7, 16)),
            Nm(p \o "/source_block_device_logical_block_address", Fl(b, o + 12, 7, 64)),
            Nm(p \o "/destination_block_device_logical_block_address", Fl(b, o + 20, 7, 64)) }
     ELSE { Nm(p \o "/stream_device_transfer_length", Fl(b, o + 9, 7, 24)), Nm(p \o "/#reserved 12-13", Un(b, o + 12, 2)),
            Nm(p \o "/block_device_number_of_blocks", Fl(b, o + 14, 7, 16)),
            Nm(p \o "/block_device_logical_block_address", Fl(b, o + 16, 7, 64)) })
RECURSIVE SegOffsets(_, _, _)
SegOffsets(b, off, end) == IF off + 4 > end THEN <<>>
                           ELSE LET sz == SegSize(Nn(b, off, 1)) IN
                                IF off + sz > end THEN <<>> ELSE <<off>> \o SegOffsets(b, off + sz, end)
XcopyBody(b, hdr, tl, sl, il, pk, sk, dk, tname) ==
    LET nt == tl \div 32
        so == SegOffsets(b, hdr + tl, hdr + tl + sl) IN
    { Cnt(tname, nt), Cnt("segment_descriptor_list", Len(so)), Bl("inline_data", Bs(b, hdr + tl + sl, il)) }
    \cup UNION { Cscd(b, hdr + 32 * i, Idx(tname, i), pk) : i \in 0..(nt - 1) }
    \cup UNION { Seg(b, so[i], Idx("segment_descriptor_list", i - 1), sk, dk) : i \in 1..Len(so) }
XcopyExact(b, hdr, tl, sl, il) ==
    /\ Len(b) = hdr + tl + sl + il /\ tl % 32 = 0
    /\ LET so == SegOffsets(b, hdr + tl, hdr + tl + sl) IN
       /\ (IF so = <<>> THEN sl = 0 ELSE so[Len(so)] + SegSize(Nn(b, so[Len(so)], 1)) = hdr + tl + sl)
       /\ \A i \in 1..Len(so) : Nn(b, so[i] + 2, 2) = SegSize(Nn(b, so[i], 1)) - 4      \* DESCRIPTOR LENGTH (n-3)
P_XcopyLid1(b) ==
    { Nm("list_identifier", Fl(b, 0, 7, 8)), Nm("sequential_striped", Fl(b, 1, 5, 1)), Nm("nrcr", Fl(b, 1, 4, 1)), Nm("priority", Fl(b, 1, 2, 3)),
      Nm("#reserved 1.7:2", Fl(b, 1, 7, 2)), Nm("#reserved 1.3", Fl(b, 1, 3, 1)), Nm("#reserved 4-7", Un(b, 4, 4)) }
    \cup XcopyBody(b, 16, Nn(b, 2, 2), Nn(b, 8, 4), Nn(b, 12, 4), "target_descriptor_parameters",
                   "source_target_descriptor_id", "destination_target_descriptor_id", "target_descriptor_list")
Exact_XcopyLid1(b) == Len(b) >= 16 /\ XcopyExact(b, 16, Nn(b, 2, 2), Nn(b, 8, 4), Nn(b, 12, 4))
P_XcopyLid4(b) ==
    { Nm("sequential_striped", Fl(b, 1, 5, 1)), Nm("list_id_usage", Fl(b, 1, 4, 2)), Nm("priority", Fl(b, 1, 2, 3)),
      Nm("g_sense", Fl(b, 15, 1, 1)), Nm("immed", Fl(b, 15, 0, 1)), Nm("list_identifier", Fl(b, 20, 7, 32)),
      Nm("#reserved 1.7:2", Fl(b, 1, 7, 2)) }
    \cup XcopyBody(b, 48, Nn(b, 42, 2), Nn(b, 44, 2), Nn(b, 46, 2), "cscd_descriptor_parameters",
                   "source_cscd_descriptor_id", "destination_cscd_descriptor_id", "cscd_descriptor_list")
Exact_XcopyLid4(b) == Len(b) >= 48 /\ Nn(b, 0, 1) = 1 /\ Nn(b, 2, 2) = 32 /\ Nn(b, 16, 1) = 255
                      /\ XcopyExact(b, 48, Nn(b, 42, 2), Nn(b, 44, 2), Nn(b, 46, 2))

OutFormats == { "TransportID", "ModeSelect6", "ModeSelect10", "PrOutBasic", "PrOutSpecIpt", "PrOutRegMove", "XcopyLid1", "XcopyLid4" }
ParseOut(fmt, b) ==
    CASE fmt = "TransportID" -> TransportIdOut("tid", b)
      [] fmt = "ModeSelect6" -> P_ModeSelect6(b) [] fmt = "ModeSelect10" -> P_ModeSelect10(b)
      [] fmt = "PrOutBasic" -> P_PrOutBasic(b) [] fmt = "PrOutSpecIpt" -> P_PrOutSpecIpt(b) [] fmt = "PrOutRegMove" -> P_PrOutRegMove(b)
      [] fmt = "XcopyLid1" -> P_XcopyLid1(b) [] fmt = "XcopyLid4" -> P_XcopyLid4(b)
Exact(fmt, b) ==
    CASE fmt = "TransportID" -> Exact_Tid(b)
      [] fmt = "ModeSelect6" -> Exact_ModeSelect6(b) [] fmt = "ModeSelect10" -> Exact_ModeSelect10(b)
      [] fmt = "PrOutBasic" -> Exact_PrOutBasic(b) [] fmt = "PrOutSpecIpt" -> Exact_PrOutSpecIpt(b)
      [] fmt = "PrOutRegMove" -> Exact_PrOutRegMove(b) [] fmt = "XcopyLid1" -> Exact_XcopyLid1(b) [] fmt = "XcopyLid4" -> Exact_XcopyLid4(b)

\* ---- READ CD  MMC-6 6.20 (tables 351-356): per sector the main channel fields selected by the Main Channel
\* Selection Bits (SYNC 12, header 4, sub-header 8, user data, EDC/ECC), then C2 (294 / 296), then sub-channel
\* (Q 16 / raw or R-W 96).  par = [est, mcsb (5 bits), c2ei, scsb, tl, lba].  Covered selections: F8h (everything),
\* 10h (user data), 20h (header), and for Mode 2 form 1 the contiguous runs in M2F1Runs; sector types CD-DA (1), Mode 1 (2), Mode 2 formless (3), Mode 2 form 1 (4).
M1Runs == {6, 7, 20, 22, 23, 3, 16}      \* header+data; +ecc; sync+header; +data; +ecc; data+ecc; sync
M2Runs == {6, 20, 22, 16}                \* header+data; sync+header; sync+header+data; sync
M2F1Runs == {8, 10, 12, 14, 30, 15, 3, 11, 28}     \* sub-header; +data; both headers; +data; sync+headers+data; headers+data+ecc; data+ecc; sub-header+data+ecc; sync+headers
RcUser(est) == CASE est = 1 -> 2352 [] est = 2 -> 2048 [] est = 3 -> 2336 [] est = 4 -> 2048 [] OTHER -> 0
RcMain(par) ==      \* sequence of <<name, size>> in wire order
    LET est == par.est  m == par.mcsb IN
    IF est = 1 THEN (IF m \in {31, 2} THEN << <<"data", 2352>> >> ELSE <<>>)
    ELSE IF m = 2 THEN << <<"data", RcUser(est)>> >>
    ELSE IF m = 4 THEN << <<"hdr", 4>> >>
    ELSE IF est = 2 /\ m \in M1Runs THEN
         \* Mode 1 has no sub-header: runs of SYNC / header (code 01b) / user data / EDC-ECC (4 + 8 zero + 276 parity)
         (IF m \div 16 = 1 THEN << <<"sync", 12>> >> ELSE <<>>)
         \o (IF (m \div 4) % 4 = 1 THEN << <<"hdr", 4>> >> ELSE <<>>)
         \o (IF (m \div 2) % 2 = 1 THEN << <<"data", 2048>> >> ELSE <<>>)
         \o (IF m % 2 = 1 THEN << <<"edc", 4>>, <<"zero", 8>>, <<"p-parity", 172>>, <<"q-parity", 104>> >> ELSE <<>>)
    ELSE IF est = 3 /\ m \in M2Runs THEN
         \* Mode 2 formless: SYNC / header / 2336 bytes of user data, no EDC-ECC
         (IF m \div 16 = 1 THEN << <<"sync", 12>> >> ELSE <<>>)
         \o (IF (m \div 4) % 4 = 1 THEN << <<"hdr", 4>> >> ELSE <<>>)
         \o (IF (m \div 2) % 2 = 1 THEN << <<"data", 2336>> >> ELSE <<>>)
    ELSE IF est = 4 /\ m \in M2F1Runs THEN
         \* Mode 2 form 1 carries every field, so every contiguous run of them is a legal selection (MMC-6 table 354):
         \* SYNC 10h, HEADER CODES 0Ch (01b header, 10b sub-header, 11b both), USER DATA 02h, EDC & ECC 01h
         (IF m \div 16 = 1 THEN << <<"sync", 12>> >> ELSE <<>>)
         \o (IF (m \div 4) % 4 \in {1, 3} THEN << <<"hdr", 4>> >> ELSE <<>>)
         \o (IF (m \div 4) % 4 \in {2, 3} THEN << <<"subhdr", 8>> >> ELSE <<>>)
         \o (IF (m \div 2) % 2 = 1 THEN << <<"data", 2048>> >> ELSE <<>>)
         \o (IF m % 2 = 1 THEN << <<"edc", 4>>, <<"p-parity", 172>>, <<"q-parity", 104>> >> ELSE <<>>)
    ELSE IF m = 31 THEN
         (CASE est = 2 -> << <<"sync", 12>>, <<"hdr", 4>>, <<"data", 2048>>, <<"edc", 4>>, <<"zero", 8>>, <<"p-parity", 172>>, <<"q-parity", 104>> >>
            [] est = 3 -> << <<"sync", 12>>, <<"hdr", 4>>, <<"data", 2336>> >>
            [] est = 4 -> << <<"sync", 12>>, <<"hdr", 4>>, <<"subhdr", 8>>, <<"data", 2048>>, <<"edc", 4>>, <<"p-parity", 172>>, <<"q-parity", 104>> >>
            [] OTHER -> <<>>)
    ELSE <<>>
RECURSIVE RcSum(_)
RcSum(q) == IF q = <<>> THEN 0 ELSE q[1][2] + RcSum(Tail(q))
RcC2(par) == CASE par.c2ei = 1 -> 294 [] par.c2ei = 2 -> 296 [] OTHER -> 0
RcSub(par) == CASE par.scsb = 2 -> 16 [] par.scsb = 4 -> 96 [] par.scsb = 1 -> 96 [] OTHER -> 0
RcStride(par) == RcSum(RcMain(par)) + RcC2(par) + RcSub(par)
RECURSIVE RcFields(_, _, _, _)
RcFields(b, off, q, p) ==
    IF q = <<>> THEN {}
    ELSE LET nm == q[1][1]  sz == q[1][2] IN
         (CASE nm = "hdr" -> { Nm(p \o "/sector-header/minute", Fl(b, off, 7, 8)), Nm(p \o "/sector-header/second", Fl(b, off + 1, 7, 8)),
                               Nm(p \o "/sector-header/frame", Fl(b, off + 2, 7, 8)), Nm(p \o "/sector-header/mode", Fl(b, off + 3, 7, 8)) }
            [] nm = "subhdr" -> { Cnt(p \o "/sector-subheader", 2),
                                  Nm(p \o "/sector-subheader/0/file-number", Fl(b, off, 7, 8)), Nm(p \o "/sector-subheader/0/channel-number", Fl(b, off + 1, 7, 8)),
                                  Nm(p \o "/sector-subheader/0/sub-mode", Fl(b, off + 2, 7, 8)),
                                  Nm(p \o "/sector-subheader/1/file-number", Fl(b, off + 4, 7, 8)), Nm(p \o "/sector-subheader/1/channel-number", Fl(b, off + 5, 7, 8)),
                                  Nm(p \o "/sector-subheader/1/sub-mode", Fl(b, off + 6, 7, 8)) }
            [] nm = "zero" -> {}
            [] OTHER -> { Bl(p \o "/" \o nm, Bs(b, off, sz)) })
         \cup RcFields(b, off + sz, Tail(q), p)
RcSector(b, off, par, p) ==
    LET mainq == RcMain(par)  ms == RcSum(mainq) IN
    RcFields(b, off, mainq, p)
    \cup (CASE par.c2ei = 1 -> { Bl(p \o "/c2ei-data", Bs(b, off + ms, 294)) }
            [] par.c2ei = 2 -> { Bl(p \o "/c2ei/data", Bs(b, off + ms, 296)) } [] OTHER -> {})
    \cup (IF RcSub(par) > 0 THEN { Bl(p \o "/subchannel/data", Bs(b, off + ms + RcC2(par), RcSub(par))) } ELSE {})
P_ReadCd(b, par) == UNION { RcSector(b, i * RcStride(par), par, ToString(par.lba + i)) : i \in 0..(par.tl - 1) }
Ok_ReadCd(b, par) == par.est \in 1..4 /\ RcMain(par) # <<>> /\ par.scsb \in {0, 2, 4} /\ par.c2ei \in 0..2 /\ Len(b) >= par.tl * RcStride(par)

\* ---- dispatch -----------------------------------------------------------------------------------
Formats == { "ReadCapacity10", "ReadCapacity16", "ReportLuns", "GetLBAStatus", "InquiryStd", "Vpd00", "Vpd80",
             "Vpd83", "Vpd86", "Vpd89", "VpdB0", "VpdB1", "VpdB2", "VpdB3", "ModeSense6", "ModeSense10", "RtpgLen", "RtpgExt",
             "PrinKeys", "PrinReservation", "PrinCapabilities", "PrinFullStatus", "Rdi", "ReadElementStatus",
             "ReportPriority" }

Parse(fmt, b) ==
    CASE fmt = "ReadCapacity10" -> P_ReadCapacity10(b) [] fmt = "ReadCapacity16" -> P_ReadCapacity16(b)
      [] fmt = "ReportLuns" -> P_ReportLuns(b) [] fmt = "GetLBAStatus" -> P_GetLBAStatus(b)
      [] fmt = "InquiryStd" -> P_InquiryStd(b) [] fmt = "Vpd00" -> P_Vpd00(b) [] fmt = "Vpd80" -> P_Vpd80(b)
      [] fmt = "Vpd83" -> P_Vpd83(b) [] fmt = "Vpd86" -> P_Vpd86(b) [] fmt = "Vpd89" -> P_Vpd89(b) [] fmt = "VpdB0" -> P_VpdB0(b)
      [] fmt = "VpdB1" -> P_VpdB1(b) [] fmt = "VpdB2" -> P_VpdB2(b) [] fmt = "VpdB3" -> P_VpdB3(b)
      [] fmt = "ModeSense6" -> P_ModeSense6(b) [] fmt = "ModeSense10" -> P_ModeSense10(b)
      [] fmt = "RtpgLen" -> P_Rtpg(b, FALSE) [] fmt = "RtpgExt" -> P_Rtpg(b, TRUE)
      [] fmt = "PrinKeys" -> P_PrinKeys(b) [] fmt = "PrinReservation" -> P_PrinReservation(b)
      [] fmt = "PrinCapabilities" -> P_PrinCapabilities(b) [] fmt = "PrinFullStatus" -> P_PrinFullStatus(b)
      [] fmt = "Rdi" -> P_Rdi(b) [] fmt = "ReadElementStatus" -> P_ReadElementStatus(b)
      [] fmt = "ReportPriority" -> P_ReportPriority(b)

Okay(fmt, b) ==
    CASE fmt = "ReadCapacity10" -> Ok_ReadCapacity10(b) [] fmt = "ReadCapacity16" -> Ok_ReadCapacity16(b)
      [] fmt = "ReportLuns" -> Ok_ReportLuns(b) [] fmt = "GetLBAStatus" -> Ok_GetLBAStatus(b)
      [] fmt = "InquiryStd" -> Ok_InquiryStd(b)
      [] fmt \in {"Vpd00", "Vpd80", "Vpd86", "VpdB0", "VpdB1", "VpdB2", "VpdB3"} -> Ok_Vpd(b)
      [] fmt = "Vpd83" -> Ok_Vpd83(b) [] fmt = "Vpd89" -> Ok_Vpd89(b)
      [] fmt = "ModeSense6" -> Ok_ModeSense6(b) [] fmt = "ModeSense10" -> Ok_ModeSense10(b)
      [] fmt = "RtpgLen" -> Ok_Rtpg(b, FALSE) [] fmt = "RtpgExt" -> Ok_Rtpg(b, TRUE)
      [] fmt = "PrinKeys" -> Ok_PrinKeys(b) [] fmt = "PrinReservation" -> Ok_PrinReservation(b)
      [] fmt = "PrinCapabilities" -> Ok_PrinCapabilities(b) [] fmt = "PrinFullStatus" -> Ok_PrinFullStatus(b)
      [] fmt = "Rdi" -> Ok_Rdi(b) [] fmt = "ReadElementStatus" -> Ok_ReadElementStatus(b)
      [] fmt = "ReportPriority" -> Ok_ReportPriority(b)
=============================================================================
