SPECIFICATION Spec
CONSTANTS
  BS = 2
INVARIANT ReadYourWrites
INVARIANT SameMedium
CONSTRAINT Depth
CHECK_DEADLOCK FALSE
