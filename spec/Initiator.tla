------------------------------ MODULE Initiator ------------------------------
(***************************************************************************)
(* Composition of the library's layers as one machine: a facade attached to  *)
(* an SG_IO device whose node can be replaced or vanish (Handle), a target    *)
(* with a two-block medium (Target) that can be told to fail the next         *)
(* command (Transport), and the caller's view of the medium.  Every action     *)
(* appends what the caller must observe to `hist`; complete behaviours are      *)
(* exported (TLC -simulate) and replayed step by step against the real          *)
(* SCSI facade / SCSIDevice over a tmpfs node and the stand-in binding.          *)
(***************************************************************************)
EXTENDS TransportRules, Json

CONSTANTS MaxLen, Detect, Tr      \* Tr: "sgio" (device node, replug detection) or "iscsi" (no node to go stale)

VARIABLES node, fresh, disk, mine, fault, oarmed, hist, exported
vars == <<node, fresh, disk, mine, fault, oarmed, hist, exported>>

LBAs == {0, 1}
Vals == {1, 2, 3}

Init == /\ node = "present" /\ fresh = TRUE
        /\ disk = [l \in LBAs |-> 0] /\ mine = [l \in LBAs |-> 0]
        /\ fault = 0 /\ oarmed = FALSE /\ hist = <<>> /\ exported = FALSE

Room == Len(hist) < MaxLen /\ ~exported

\* the completions a target may be told to give the next command: CHECK CONDITION (with sense) and every
\* status SAM names (TransportRules!Named); over SG_IO the binding hides the status byte
FaultStatuses == {2, 8, 24, 40, 48, 64}
Outcome(st) == IF st = 2 THEN "CheckCondition" ELSE IF Tr = "sgio" THEN "UnspecifiedError" ELSE Named(st)
\* how one command fares on its way to the target: <<outcome, reaches the target, handle fresh afterwards>>
\* oarmed: the next open() of the node fails (Handle.tla: a failed re-open is an error that sends nothing and
\* leaves no handle; the next command tries again)
OpenFails == Detect /\ node = "present" /\ ~fresh /\ oarmed
Path == IF Detect /\ node = "absent" THEN <<"FileNotFoundError", FALSE, fresh>>
        ELSE IF OpenFails THEN <<"PermissionError", FALSE, FALSE>>
        ELSE IF fault # 0 THEN <<Outcome(fault), FALSE, IF Detect THEN TRUE ELSE fresh>>
        ELSE <<"ok", TRUE, IF Detect THEN TRUE ELSE fresh>>
\* a fault is consumed by the command that reaches the binding
FaultAfter == IF (Detect /\ node = "absent") \/ OpenFails THEN fault ELSE 0
OarmedAfter == IF OpenFails THEN FALSE ELSE oarmed

Write(l, v) ==
    /\ Room
    /\ LET p == Path IN
       /\ disk' = IF p[2] THEN [disk EXCEPT ![l] = v] ELSE disk
       /\ mine' = IF p[1] = "ok" THEN [mine EXCEPT ![l] = v] ELSE mine
       /\ fresh' = p[3] /\ fault' = FaultAfter /\ oarmed' = OarmedAfter
       /\ hist' = Append(hist, [act |-> "write", lba |-> l, val |-> v, out |-> p[1], data |-> 0])
    /\ UNCHANGED <<node, exported>>
\* the caller keeps ONE write command object and the buffer it was built with: it refills the buffer in place,
\* re-encodes the CDB for block l (cmd.cdb = cmd.build_cdb(...)) and hands the object to the facade's execute - to
\* the target a WRITE like any other, of what the buffer holds NOW
Rewrite(l, v) ==
    /\ Room
    /\ LET p == Path IN
       /\ disk' = IF p[2] THEN [disk EXCEPT ![l] = v] ELSE disk
       /\ mine' = IF p[1] = "ok" THEN [mine EXCEPT ![l] = v] ELSE mine
       /\ fresh' = p[3] /\ fault' = FaultAfter /\ oarmed' = OarmedAfter
       /\ hist' = Append(hist, [act |-> "rewrite", lba |-> l, val |-> v, out |-> p[1], data |-> 0])
    /\ UNCHANGED <<node, exported>>
\* WRITE SAME(10) with NUMBER OF LOGICAL BLOCKS 0: every block from l to the end of the medium (SBC-3 5.43)
Fill(l, v) ==
    /\ Room
    /\ LET p == Path IN
       /\ disk' = IF p[2] THEN [k \in LBAs |-> IF k >= l THEN v ELSE disk[k]] ELSE disk
       /\ mine' = IF p[1] = "ok" THEN [k \in LBAs |-> IF k >= l THEN v ELSE mine[k]] ELSE mine
       /\ fresh' = p[3] /\ fault' = FaultAfter /\ oarmed' = OarmedAfter
       /\ hist' = Append(hist, [act |-> "fill", lba |-> l, val |-> v, out |-> p[1], data |-> 0])
    /\ UNCHANGED <<node, exported>>
\* WRITE SAME(16) with NDOB = 1: a write without a data-out phase (the block becomes zero)
Zero(l) ==
    /\ Room
    /\ LET p == Path IN
       /\ disk' = IF p[2] THEN [disk EXCEPT ![l] = 0] ELSE disk
       /\ mine' = IF p[1] = "ok" THEN [mine EXCEPT ![l] = 0] ELSE mine
       /\ fresh' = p[3] /\ fault' = FaultAfter /\ oarmed' = OarmedAfter
       /\ hist' = Append(hist, [act |-> "zero", lba |-> l, val |-> 0, out |-> p[1], data |-> 0])
    /\ UNCHANGED <<node, exported>>
Read(l) ==
    /\ Room
    /\ LET p == Path IN
       /\ fresh' = p[3] /\ fault' = FaultAfter /\ oarmed' = OarmedAfter
       /\ hist' = Append(hist, [act |-> "read", lba |-> l, val |-> 0, out |-> p[1], data |-> IF p[1] = "ok" THEN disk[l] ELSE 0])
    /\ UNCHANGED <<node, disk, mine, exported>>
\* the caller keeps ONE read command object, re-encodes its CDB for another block (cmd.cdb = cmd.build_cdb(...))
\* and hands it to the facade's execute: to the target that is a READ like any other
Reread(l) ==
    /\ Room
    /\ LET p == Path IN
       /\ fresh' = p[3] /\ fault' = FaultAfter /\ oarmed' = OarmedAfter
       /\ hist' = Append(hist, [act |-> "reread", lba |-> l, val |-> 0, out |-> p[1], data |-> IF p[1] = "ok" THEN disk[l] ELSE 0])
    /\ UNCHANGED <<node, disk, mine, exported>>
\* re-attaching sends one INQUIRY down the same path
Reattach ==
    /\ Room
    /\ LET p == Path IN
       /\ fresh' = p[3] /\ fault' = FaultAfter /\ oarmed' = OarmedAfter
       /\ hist' = Append(hist, [act |-> "reattach", lba |-> 0, val |-> 0, out |-> p[1], data |-> 0])
    /\ UNCHANGED <<node, disk, mine, exported>>
Env(a) ==
    /\ Room
    /\ \/ a = "replug" /\ Tr = "sgio" /\ node = "present" /\ node' = node /\ fresh' = FALSE /\ fault' = fault
       \/ a = "unplug" /\ Tr = "sgio" /\ node = "present" /\ node' = "absent" /\ fresh' = FALSE /\ fault' = fault
       \/ a = "plug" /\ Tr = "sgio" /\ node = "absent" /\ node' = "present" /\ fresh' = FALSE /\ fault' = fault
    /\ hist' = Append(hist, [act |-> a, lba |-> 0, val |-> 0, out |-> "ok", data |-> 0])
    /\ UNCHANGED <<disk, mine, oarmed, exported>>
ArmOpen ==
    /\ Room /\ Tr = "sgio" /\ Detect /\ ~oarmed /\ oarmed' = TRUE
    /\ hist' = Append(hist, [act |-> "armopen", lba |-> 0, val |-> 0, out |-> "ok", data |-> 0])
    /\ UNCHANGED <<node, fresh, disk, mine, fault, exported>>
Arm(st) ==
    /\ Room /\ fault = 0 /\ fault' = st
    /\ hist' = Append(hist, [act |-> "arm", lba |-> 0, val |-> st, out |-> "ok", data |-> 0])
    /\ UNCHANGED <<node, fresh, disk, mine, oarmed, exported>>
Export == /\ Len(hist) = MaxLen /\ ~exported
          /\ PrintT(<<"BEHAVIOUR", ToJson([detect |-> Detect, tr |-> Tr, steps |-> hist])>>)
          /\ exported' = TRUE /\ UNCHANGED <<node, fresh, disk, mine, fault, oarmed, hist>>

Next == \/ \E l \in LBAs, v \in Vals : Write(l, v) \/ Fill(l, v) \/ Rewrite(l, v)
        \/ \E l \in LBAs : Read(l) \/ Reread(l) \/ Zero(l)
        \/ Reattach
        \/ \E a \in {"replug", "unplug", "plug"} : Env(a)
        \/ \E st \in FaultStatuses : Arm(st)
        \/ ArmOpen
        \/ Export
Spec == Init /\ [][Next]_vars

\* what the caller believes is on the medium is what the target holds: a failed write changed nothing,
\* a successful one arrived, whatever happened to the node in between
SameMedium == mine = disk
\* with detection on, a command that succeeded went through a handle of the node now at the path
FreshAfterSuccess == (Detect /\ hist # <<>> /\ hist[Len(hist)].act \in {"read", "reread", "write", "rewrite", "fill", "zero", "reattach"} /\ hist[Len(hist)].out = "ok") => fresh
=============================================================================
