SPECIFICATION Spec
CONSTANTS
  Size = 12
  Guarded = TRUE
INVARIANT WorkBounded
PROPERTY Termination
PROPERTY VariantDecreases
CHECK_DEADLOCK FALSE
