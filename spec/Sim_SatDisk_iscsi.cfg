SPECIFICATION Spec
CONSTANTS
  MaxLen = 25
  Tr = "iscsi"
INVARIANT TypeOK
INVARIANT ReadsSeeWrites
PROPERTY OnlyWritesWrite
PROPERTY MediaAccessSpinsUp
CHECK_DEADLOCK FALSE
