SPECIFICATION Spec
CONSTANTS
  NBytes = 3
  MaxStart = 15
  MaxW = 16
  ExhW = 4
INVARIANT Readback
INVARIANT Untouched
INVARIANT ConfluentInv
INVARIANT IsBytes
INVARIANT IntLaws
CHECK_DEADLOCK FALSE
