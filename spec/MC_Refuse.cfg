SPECIFICATION MCSpec
INVARIANT RefusedBeforeSend
INVARIANT SentOnlyBuilt
INVARIANT AtMostOnce
CHECK_DEADLOCK FALSE
