SPECIFICATION Spec
CONSTANTS
  MaxLen = 24
  Detect = FALSE
  Tr = "iscsi"
INVARIANT SameMedium
CHECK_DEADLOCK FALSE
