------------------------------- MODULE T10Cdb -------------------------------
(***************************************************************************)
(* Command descriptor blocks of the 42 command classes, transcribed from    *)
(* SPC-4 r37 (6.x), SBC-3 r36 (5.x), SMC-3, MMC-6 and SAT-3 (12.2) in T10     *)
(* notation: a field is [b, m, w] = byte of its MSB, bit number of its MSB,  *)
(* width.  Keys are the names of the public dictionaries of                   *)
(* marshall_cdb/unmarshall_cdb, `arg` is the constructor argument that feeds   *)
(* the field.  Nothing here is derived from the library's mask tables.         *)
(***************************************************************************)
EXTENDS Bits, T10Opcodes

Seg(b, m, w)        == [b |-> b, m |-> m, w |-> w, lo |-> 0]
SegLo(b, m, w, lo)  == [b |-> b, m |-> m, w |-> w, lo |-> lo]

\* optional argument with default `def` (a Num), required argument
Fd(key, arg, b, m, w, def) ==
    [key |-> key, arg |-> arg, segs |-> <<Seg(b, m, w)>>, span |-> Seg(b, m, w), w |-> w,
     def |-> def, req |-> FALSE]
Rq(key, arg, b, m, w) ==
    [key |-> key, arg |-> arg, segs |-> <<Seg(b, m, w)>>, span |-> Seg(b, m, w), w |-> w,
     def |-> <<>>, req |-> TRUE]

NoSA == <<>>
AllSets == {"spc", "sbc", "ssc", "smc", "mmc"}

\* data phase descriptions
None        == [k |-> "none"]
InAlloc(a)  == [k |-> "in_alloc", arg |-> a]            \* data-in = allocation length
InBlocks(a) == [k |-> "in_blocks", arg |-> a]           \* data-in = blocksize * transfer length
OutData(a)  == [k |-> "out_data", arg |-> a]            \* data-out = caller's data, tl blocks
OutBlock    == [k |-> "out_block"]                      \* data-out = one block (WRITE SAME)
OutList     == [k |-> "out_list"]                       \* data-out = composed parameter list
Ata         == [k |-> "ata"]
ReadCdPh    == [k |-> "readcd"]

Z == <<>>            \* the number 0

\* read / write (10) (12) (16) share their flag byte
RdFlags == << Fd("rdprotect", "rdprotect", 1, 7, 3, Z), Fd("dpo", "dpo", 1, 4, 1, Z),
              Fd("fua", "fua", 1, 3, 1, Z), Fd("rarc", "rarc", 1, 2, 1, Z) >>
WrFlags == << Fd("wrprotect", "wrprotect", 1, 7, 3, Z), Fd("dpo", "dpo", 1, 4, 1, Z),
              Fd("fua", "fua", 1, 3, 1, Z) >>
WsFlags == << Fd("wrprotect", "wrprotect", 1, 7, 3, Z), Fd("anchor", "anchor", 1, 4, 1, Z),
              Fd("unmap", "unmap", 1, 3, 1, Z) >>

AtaByte2 == << Rq("t_length", "t_length", 2, 1, 2), Rq("byte_block", "byte_block", 2, 2, 1),
               Rq("t_dir", "t_dir", 2, 3, 1), Rq("t_type", "t_type", 2, 4, 1),
               Fd("ck_cond", "ck_cond", 2, 5, 1, Z), Rq("off_line", "off_line", 2, 7, 2) >>

\* SAT-3 12.2.2.2/12.2.2.3: where the bytes of the 48-bit (28-bit) ATA LBA live
AtaLba16 == [key |-> "lba", arg |-> "lba", w |-> 48, def |-> Z, req |-> TRUE,
             span |-> Seg(7, 7, 48),
             segs |-> << SegLo(7, 7, 8, 24), SegLo(8, 7, 8, 0), SegLo(9, 7, 8, 32),
                         SegLo(10, 7, 8, 8), SegLo(11, 7, 8, 40), SegLo(12, 7, 8, 16) >>]
AtaLba12 == [key |-> "lba", arg |-> "lba", w |-> 24, def |-> Z, req |-> TRUE,
             span |-> Seg(5, 7, 24),
             segs |-> << SegLo(5, 7, 8, 0), SegLo(6, 7, 8, 8), SegLo(7, 7, 8, 16) >>]

C(opname, opv, sa, len, fields, phase, sets) ==
    [opname |-> opname, opv |-> opv, sa |-> sa, len |-> len, fields |-> fields, phase |-> phase, sets |-> sets]

N(n) == NumOfNat(n)

\* one arm per class; only the arm asked for is evaluated (TLC re-evaluates definitions at every use)
CmdOf(c) ==
  CASE c = "TestUnitReady" ->
        C("TEST_UNIT_READY", \h00, NoSA, 6, <<>>, None, AllSets)
    [] c = "InitializeElementStatus" ->
        C("INITIALIZE_ELEMENT_STATUS", \h07, NoSA, 6, <<>>, None, {"smc"})
    [] c = "Inquiry" ->
        C("INQUIRY", \h12, NoSA, 6,
           << Fd("evpd", "evpd", 1, 0, 1, Z), Fd("page_code", "page_code", 2, 7, 8, Z),
              Fd("alloc_len", "alloclen", 3, 7, 16, N(96)) >>, InAlloc("alloclen"), AllSets)
    [] c = "ModeSelect6" ->
        C("MODE_SELECT_6", \h15, NoSA, 6,
           << Fd("pf", "pf", 1, 4, 1, <<1>>), Fd("sp", "sp", 1, 0, 1, Z),
              Rq("parameter_list_length", "#plen", 4, 7, 8) >>, OutList, {"spc", "sbc", "ssc", "smc"})
    [] c = "ModeSense6" ->
        C("MODE_SENSE_6", \h1A, NoSA, 6,
           << Fd("dbd", "dbd", 1, 3, 1, Z), Fd("pc", "pc", 2, 7, 2, Z), Rq("page_code", "page_code", 2, 5, 6),
              Fd("sub_page_code", "sub_page_code", 3, 7, 8, Z), Fd("alloc_len", "alloclen", 4, 7, 8, N(96)) >>,
           InAlloc("alloclen"), {"spc", "sbc", "ssc", "smc"})
    [] c = "OpenCloseImportExportElement" ->
        C("OPEN_CLOSE_IMPORT_EXPORT_ELEMENT", \h1B, NoSA, 6,
           << Rq("element_address", "xfer", 2, 7, 16), Rq("action_code", "acode", 4, 4, 5) >>, None, {"smc"})
    [] c = "PreventAllowMediumRemoval" ->
        C("PREVENT_ALLOW_MEDIUM_REMOVAL", \h1E, NoSA, 6,
           << Fd("prevent", "prevent", 4, 1, 2, Z) >>, None, AllSets)
    [] c = "ReadCapacity10" ->
        C("READ_CAPACITY_10", \h25, NoSA, 10, <<>>,
           [k |-> "in_fixed", arg |-> "alloclen", def |-> N(8)], {"sbc"})
    [] c = "Read10" ->
        C("READ_10", \h28, NoSA, 10,
           RdFlags \o << Rq("lba", "lba", 2, 7, 32), Fd("group", "group", 6, 4, 5, Z), Rq("tl", "tl", 7, 7, 16) >>,
           InBlocks("tl"), {"sbc", "mmc"})
    [] c = "Write10" ->
        C("WRITE_10", \h2A, NoSA, 10,
           WrFlags \o << Rq("lba", "lba", 2, 7, 32), Fd("group", "group", 6, 4, 5, Z), Rq("tl", "tl", 7, 7, 16) >>,
           OutData("tl"), {"sbc", "mmc"})
    [] c = "PositionToElement" ->
        C("POSITION_TO_ELEMENT", \h2B, NoSA, 10,
           << Rq("medium_transport_address", "xfer", 2, 7, 16), Rq("destination_address", "dest", 4, 7, 16),
              Fd("invert", "invert", 8, 0, 1, Z) >>, None, {"smc"})
    [] c = "SynchronizeCache10" ->
        C("SYNCHRONIZE_CACHE_10", \h35, NoSA, 10,
           << Fd("immed", "immed", 1, 1, 1, Z), Rq("lba", "lba", 2, 7, 32), Fd("group", "group", 6, 4, 5, Z),
              Rq("numblks", "numblks", 7, 7, 16) >>, None, {"sbc"})
    [] c = "InitializeElementStatusWithRange" ->
        C("INITIALIZE_ELEMENT_STATUS_WITH_RANGE", \h37, NoSA, 10,
           << Fd("fast", "fast", 1, 1, 1, Z), Fd("range", "rng", 1, 0, 1, Z),
              Rq("starting_element_address", "xfer", 2, 7, 16), Rq("number_of_elements", "elements", 6, 7, 16) >>,
           None, {"smc"})
    [] c = "WriteSame10" ->
        C("WRITE_SAME_10", \h41, NoSA, 10,
           WsFlags \o << Rq("lba", "lba", 2, 7, 32), Fd("group", "group", 6, 4, 5, Z), Rq("nb", "nb", 7, 7, 16) >>,
           OutBlock, {"sbc"})
    [] c = "ReadDiscInformation" ->
        C("READ_DISC_INFORMATION", \h51, NoSA, 10,
           << Rq("data_type", "data_type", 1, 2, 3), Fd("alloc_len", "alloc_len", 7, 7, 16, N(4096)) >>,
           InAlloc("alloc_len"), {"mmc"})
    [] c = "ModeSelect10" ->
        C("MODE_SELECT_10", \h55, NoSA, 10,
           << Fd("pf", "pf", 1, 4, 1, <<1>>), Fd("sp", "sp", 1, 0, 1, Z),
              Rq("parameter_list_length", "#plen", 7, 7, 16) >>, OutList, AllSets)
    [] c = "ModeSense10" ->
        C("MODE_SENSE_10", \h5A, NoSA, 10,
           << Fd("llbaa", "llbaa", 1, 4, 1, Z), Fd("dbd", "dbd", 1, 3, 1, Z), Fd("pc", "pc", 2, 7, 2, Z),
              Rq("page_code", "page_code", 2, 5, 6), Fd("sub_page_code", "sub_page_code", 3, 7, 8, Z),
              Fd("alloc_len", "alloclen", 7, 7, 16, N(96)) >>, InAlloc("alloclen"), AllSets)
    [] c = "PersistentReserveIn" ->
        C("PERSISTENT_RESERVE_IN", \h5E, NoSA, 10,
           << Rq("service_action", "service_action", 1, 4, 5), Fd("alloc_len", "alloclen", 7, 7, 16, N(1024)) >>,
           InAlloc("alloclen"), {"spc", "sbc", "ssc", "smc"})
    [] c = "PersistentReserveInReadKeys" ->
        C("PERSISTENT_RESERVE_IN", \h5E, <<0>>, 10,
           << Fd("alloc_len", "alloclen", 7, 7, 16, N(1024)) >>, InAlloc("alloclen"), {"spc", "sbc", "ssc", "smc"})
    [] c = "PersistentReserveInReadReservation" ->
        C("PERSISTENT_RESERVE_IN", \h5E, <<1>>, 10,
           << Fd("alloc_len", "alloclen", 7, 7, 16, N(1024)) >>, InAlloc("alloclen"), {"spc", "sbc", "ssc", "smc"})
    [] c = "PersistentReserveInReportCapabilities" ->
        C("PERSISTENT_RESERVE_IN", \h5E, <<2>>, 10,
           << Fd("alloc_len", "alloclen", 7, 7, 16, N(1024)) >>, InAlloc("alloclen"), {"spc", "sbc", "ssc", "smc"})
    [] c = "PersistentReserveInReadFullStatus" ->
        C("PERSISTENT_RESERVE_IN", \h5E, <<3>>, 10,
           << Fd("alloc_len", "alloclen", 7, 7, 16, N(1024)) >>, InAlloc("alloclen"), {"spc", "sbc", "ssc", "smc"})
    [] c = "PersistentReserveOut" ->
        C("PERSISTENT_RESERVE_OUT", \h5F, NoSA, 10,
           << Rq("service_action", "service_action", 1, 4, 5), Fd("scope", "scope", 2, 7, 4, Z),
              Fd("pr_type", "pr_type", 2, 3, 4, Z), Rq("parameter_list_length", "#plen", 5, 7, 32) >>,
           OutList, {"spc", "sbc", "ssc", "smc"})
    [] c = "ExtendedCopy4" ->
        C("EXTENDED_COPY", \h83, <<0>>, 16,
           << Rq("parameter_list_length", "#plen", 10, 7, 32) >>, OutList, {"spc", "sbc", "ssc"})
    [] c = "ExtendedCopy5" ->
        C("EXTENDED_COPY", \h83, <<1>>, 16,
           << Rq("parameter_list_length", "#plen", 10, 7, 32) >>, OutList, {"spc", "sbc", "ssc"})
    [] c = "ATAPassThrough16" ->
        C("ATA_PASS_THROUGH_16", \h85, NoSA, 16,
           << Rq("protocol", "protocal", 1, 4, 4), Fd("extend", "extend", 1, 0, 1, <<1>>) >> \o AtaByte2 \o
           << Rq("fetures", "fetures", 3, 7, 16), Rq("count", "count", 5, 7, 16), AtaLba16,
              Fd("device", "device", 13, 7, 8, Z), Rq("command", "command", 14, 7, 8),
              Fd("control", "control", 15, 7, 8, Z) >>, Ata, {"sbc"})
    [] c = "Read16" ->
        C("READ_16", \h88, NoSA, 16,
           RdFlags \o << Rq("lba", "lba", 2, 7, 64), Rq("tl", "tl", 10, 7, 32), Fd("group", "group", 14, 4, 5, Z) >>,
           InBlocks("tl"), {"sbc"})
    [] c = "Write16" ->
        C("WRITE_16", \h8A, NoSA, 16,
           WrFlags \o << Rq("lba", "lba", 2, 7, 64), Rq("tl", "tl", 10, 7, 32), Fd("group", "group", 14, 4, 5, Z) >>,
           OutData("tl"), {"sbc"})
    [] c = "SynchronizeCache16" ->
        C("SYNCHRONIZE_CACHE_16", \h91, NoSA, 16,
           << Fd("immed", "immed", 1, 1, 1, Z), Rq("lba", "lba", 2, 7, 64), Rq("numblks", "numblks", 10, 7, 32),
              Fd("group", "group", 14, 4, 5, Z) >>, None, {"sbc"})
    [] c = "WriteSame16" ->
        C("WRITE_SAME_16", \h93, NoSA, 16,
           WsFlags \o << Fd("ndob", "ndob", 1, 0, 1, Z), Rq("lba", "lba", 2, 7, 64), Rq("nb", "nb", 10, 7, 32),
                         Fd("group", "group", 14, 4, 5, Z) >>, OutBlock, {"sbc"})
    [] c = "ReadCapacity16" ->
        C("SERVICE_ACTION_IN_16", \h9E, <<\h10>>, 16,
           << Fd("alloc_len", "alloclen", 10, 7, 32, N(32)) >>, InAlloc("alloclen"), {"sbc"})
    [] c = "GetLBAStatus" ->
        C("SERVICE_ACTION_IN_16", \h9E, <<\h12>>, 16,
           << Rq("lba", "lba", 2, 7, 64), Fd("alloc_len", "alloclen", 10, 7, 32, N(16384)) >>,
           InAlloc("alloclen"), {"sbc"})
    [] c = "ReportLuns" ->
        C("REPORT_LUNS", \hA0, NoSA, 12,
           << Fd("select_report", "report", 2, 7, 8, Z), Fd("alloc_len", "alloclen", 6, 7, 32, N(96)) >>,
           InAlloc("alloclen"), AllSets)
    [] c = "ATAPassThrough12" ->
        C("ATA_PASS_THROUGH_12", \hA1, NoSA, 12,
           << Rq("protocol", "protocal", 1, 4, 4) >> \o AtaByte2 \o
           << Rq("fetures", "fetures", 3, 7, 8), Rq("count", "count", 4, 7, 8), AtaLba12,
              Fd("device", "device", 8, 7, 8, Z), Rq("command", "command", 9, 7, 8),
              Fd("control", "control", 11, 7, 8, Z) >>, Ata, {"sbc"})
    [] c = "ReportTargetPortGroups" ->
        C("MAINTENANCE_IN", \hA3, <<\h0A>>, 12,
           << Fd("parameter_data_format", "data_format", 1, 7, 3, Z),
              Fd("alloc_len", "alloclen", 6, 7, 32, N(16384)) >>, InAlloc("alloclen"), {"spc", "sbc", "ssc", "smc"})
    [] c = "ReportPriority" ->
        C("MAINTENANCE_IN", \hA3, <<\h0E>>, 12,
           << Fd("priority_reported", "priority", 2, 7, 2, Z),
              Fd("alloc_len", "alloclen", 6, 7, 32, N(16384)) >>, InAlloc("alloclen"), {"spc", "sbc", "ssc", "smc"})
    [] c = "MoveMedium" ->
        C("MOVE_MEDIUM", \hA5, NoSA, 12,
           << Rq("medium_transport_address", "xfer", 2, 7, 16), Rq("source_address", "source", 4, 7, 16),
              Rq("destination_address", "dest", 6, 7, 16), Fd("invert", "invert", 10, 0, 1, Z) >>, None, {"smc"})
    [] c = "ExchangeMedium" ->
        C("EXCHANGE_MEDIUM", \hA6, NoSA, 12,
           << Rq("medium_transport_address", "xfer", 2, 7, 16), Rq("source_address", "source", 4, 7, 16),
              Rq("first_destination_address", "dest1", 6, 7, 16), Rq("second_destination_address", "dest2", 8, 7, 16),
              Fd("inv1", "inv1", 10, 1, 1, Z), Fd("inv2", "inv2", 10, 0, 1, Z) >>, None, {"smc"})
    [] c = "Read12" ->
        C("READ_12", \hA8, NoSA, 12,
           RdFlags \o << Rq("lba", "lba", 2, 7, 32), Rq("tl", "tl", 6, 7, 32), Fd("group", "group", 10, 4, 5, Z) >>,
           InBlocks("tl"), {"sbc", "mmc"})
    [] c = "Write12" ->
        C("WRITE_12", \hAA, NoSA, 12,
           WrFlags \o << Rq("lba", "lba", 2, 7, 32), Rq("tl", "tl", 6, 7, 32), Fd("group", "group", 10, 4, 5, Z) >>,
           OutData("tl"), {"sbc", "mmc"})
    [] c = "ReadElementStatus" ->
        C("READ_ELEMENT_STATUS", \hB8, NoSA, 12,
           << Fd("voltag", "voltag", 1, 4, 1, Z), Fd("element_type", "element_type", 1, 3, 4, Z),
              Rq("starting_element_address", "start", 2, 7, 16), Rq("num_elements", "num", 4, 7, 16),
              Fd("curdata", "curdata", 6, 1, 1, <<1>>), Fd("dvcid", "dvcid", 6, 0, 1, Z),
              Fd("alloc_len", "alloclen", 7, 7, 24, N(16384)) >>, InAlloc("alloclen"), {"smc"})
    [] c = "ReadCd" ->
        C("READ_CD", \hBE, NoSA, 12,
           << Fd("est", "est", 1, 4, 3, Z), Fd("dap", "dap", 1, 1, 1, Z), Fd("lba", "lba", 2, 7, 32, Z),
              Fd("tl", "tl", 6, 7, 24, Z), Fd("mcsb", "mcsb", 9, 7, 5, Z), Fd("c2ei", "c2ei", 9, 2, 2, Z),
              Fd("scsb", "scsb", 10, 2, 3, Z) >>, ReadCdPh, {"mmc"})

Classes == {"TestUnitReady", "InitializeElementStatus", "Inquiry", "ModeSelect6",
            "ModeSense6", "OpenCloseImportExportElement", "PreventAllowMediumRemoval", "ReadCapacity10",
            "Read10", "Write10", "PositionToElement", "SynchronizeCache10",
            "InitializeElementStatusWithRange", "WriteSame10", "ReadDiscInformation", "ModeSelect10",
            "ModeSense10", "PersistentReserveIn", "PersistentReserveInReadKeys", "PersistentReserveInReadReservation",
            "PersistentReserveInReportCapabilities", "PersistentReserveInReadFullStatus", "PersistentReserveOut", "ExtendedCopy4",
            "ExtendedCopy5", "ATAPassThrough16", "Read16", "Write16",
            "SynchronizeCache16", "WriteSame16", "ReadCapacity16", "GetLBAStatus",
            "ReportLuns", "ATAPassThrough12", "ReportTargetPortGroups", "ReportPriority",
            "MoveMedium", "ExchangeMedium", "Read12", "Write12",
            "ReadElementStatus", "ReadCd"}

Cmd == [c \in Classes |-> CmdOf(c)]



\* fields whose defined code values are fewer than the field is wide: only the codes the
\* standard defines are "in range" (READ CD sub-channel 0,1,2,4; C2 error codes 0..2; expected sector
\* type 0..5: the library sizes and slices the data-in buffer by them).  The SMC-3 element type code is NOT
\* limited to its defined values 0..4: the library passes it through, and a reserved code with bit 3 set is
\* how the three-bit mask of the pinned tree showed (fixed in /repo 77afbd8)
CodeLimit(c, arg) ==
    CASE c = "ReadCd" /\ arg = "scsb" -> {N(0), N(1), N(2), N(4)}
      [] c = "ReadCd" /\ arg = "c2ei" -> {N(i) : i \in 0..2}
      [] c = "ReadCd" /\ arg = "est"  -> {N(i) : i \in 0..5}
      [] OTHER -> {}

OpSeg == Seg(0, 7, 8)
SASeg == Seg(1, 4, 5)

\* drop the low `lo` bits (lo is a multiple of 8 in every layout)
ShiftR(v, lo) == LET k == lo \div 8 IN IF Len(v) <= k THEN <<>> ELSE SubSeq(v, 1, Len(v) - k)

\* value of the argument feeding field f under argument record a
ArgOf(f, a) == IF f.arg \in DOMAIN a THEN a[f.arg] ELSE f.def

\* flattened segments and their values
RECURSIVE FlatSegs(_, _)
FlatSegs(fs, a) ==
    IF fs = <<>> THEN <<>>
    ELSE LET f == fs[1] IN
         Ev([i \in 1..Len(f.segs) |-> [seg |-> f.segs[i], v |-> ShiftR(ArgOf(f, a), f.segs[i].lo)]])
         \o FlatSegs(Tail(fs), a)

\* the CDB a conformant initiator sends for class c with arguments a
EncodeCdb(c, a) ==
    LET L   == Cmd[c]
        hdr == << [seg |-> OpSeg, v |-> N(L.opv)] >>
               \o (IF L.sa = NoSA THEN <<>> ELSE << [seg |-> SASeg, v |-> N(L.sa[1])] >>)
        all == hdr \o FlatSegs(L.fields, a)
    IN PutAll(Zeros(L.len), Ev([i \in 1..Len(all) |-> all[i].seg]), Ev([i \in 1..Len(all) |-> all[i].v]))

\* what a conformant target recovers from the bytes: argument name -> Num
RECURSIVE JoinSegs(_, _, _)
JoinSegs(cdb, segs, acc) ==     \* acc is a set of <<bit index, bit>> pairs; build value bit by bit
    IF segs = <<>> THEN acc
    ELSE LET s == segs[1] v == Get(cdb, s) IN
         JoinSegs(cdb, Tail(segs), acc \cup {s.lo + i : i \in {j \in 0..(s.w - 1) : BitOfNum(v, j) = 1}})

NumFromBits(w, S) ==
    LET nb == (w + 7) \div 8 IN
    Strip(Ev([j \in 1..nb |->
        LET base == 8 * (nb - j)
            bt(i) == IF (base + i) \in S THEN 1 ELSE 0 IN
        bt(0) + 2 * bt(1) + 4 * bt(2) + 8 * bt(3) + 16 * bt(4) + 32 * bt(5) + 64 * bt(6) + 128 * bt(7)]))

TargetDecode(c, cdb) ==
    LET L == Cmd[c] IN
    Ev([nm \in {L.fields[i].arg : i \in 1..Len(L.fields)} |->
        LET f == L.fields[CHOOSE i \in 1..Len(L.fields) : L.fields[i].arg = nm] IN
        NumFromBits(f.w, JoinSegs(cdb, f.segs, {}))])

\* dictionary level (C02): key -> contiguous span
DictDecode(c, cdb) ==
    LET L == Cmd[c] IN
    Ev([k \in {L.fields[i].key : i \in 1..Len(L.fields)} |->
        Get(cdb, L.fields[CHOOSE i \in 1..Len(L.fields) : L.fields[i].key = k].span)])

RECURSIVE SetToSeq0(_)
SetToSeq0(S) == IF S = {} THEN <<>> ELSE LET x == CHOOSE x \in S : TRUE IN <<x>> \o SetToSeq0(S \ {x})

KeysOf(c) == {Cmd[c].fields[i].key : i \in 1..Len(Cmd[c].fields)}
FieldOfKeyArg(c, a) == Cmd[c].fields[CHOOSE i \in 1..Len(Cmd[c].fields) : Cmd[c].fields[i].arg = a]
FieldOfKey(c, k) == Cmd[c].fields[CHOOSE i \in 1..Len(Cmd[c].fields) : Cmd[c].fields[i].key = k]
HasSAKey(c) == Cmd[c].sa # NoSA

\* marshall_cdb(dict): keys "opcode", "service_action" (where the class has one) and the fields
DictEncode(c, d) ==
    LET L  == Cmd[c]
        ks == {k \in DOMAIN d : k \in KeysOf(c)}
        sq == SetToSeq0(ks)
        hdr == (IF "opcode" \in DOMAIN d THEN << [seg |-> OpSeg, v |-> d["opcode"]] >> ELSE <<>>)
            \o (IF HasSAKey(c) /\ "service_action" \in DOMAIN d
                  THEN << [seg |-> SASeg, v |-> d["service_action"]] >> ELSE <<>>)
        all == hdr \o Ev([i \in 1..Len(sq) |-> [seg |-> FieldOfKey(c, sq[i]).span, v |-> d[sq[i]]]])
    IN PutAll(Zeros(L.len), Ev([i \in 1..Len(all) |-> all[i].seg]), Ev([i \in 1..Len(all) |-> all[i].v]))

(* ---- data phase (C03) ------------------------------------------------------ *)

Small(v) == Len(Strip(v)) <= 3              \* < 2^24, safe for TLC arithmetic

\* arithmetic on Nums that stays inside TLC's 32-bit integers: exact below 2^30, Huge above
Huge == 1073741824
BitLenByte(x) == IF x >= 128 THEN 8 ELSE IF x >= 64 THEN 7 ELSE IF x >= 32 THEN 6 ELSE IF x >= 16 THEN 5
                 ELSE IF x >= 8 THEN 4 ELSE IF x >= 4 THEN 3 ELSE IF x >= 2 THEN 2 ELSE x
BitLenS(s) == IF s = <<>> THEN 0 ELSE 8 * (Len(s) - 1) + BitLenByte(s[1])
BitLen(v) == BitLenS(Strip(v))
NatH(v) == IF BitLen(v) <= 30 THEN NatOfNum(v) ELSE Huge
Mul(x, y) == IF Strip(x) = <<>> \/ Strip(y) = <<>> THEN 0
             ELSE IF BitLen(x) + BitLen(y) <= 30 THEN NatOfNum(x) * NatOfNum(y) ELSE Huge
A(a, nm, def) == IF nm \in DOMAIN a THEN a[nm] ELSE def

\* SAT-3 12.2.2: number of bytes an ATA PASS-THROUGH transfers
AtaUnits(a) ==
    LET tlen == NatOfNum(A(a, "t_length", Z)) IN
    CASE tlen = 0 -> Z
      [] tlen = 1 -> A(a, "fetures", Z)
      [] tlen = 2 -> A(a, "count", Z)
      [] tlen = 3 -> A(a, "extra_tl", Z)      \* transfer length in the TPSIU: the caller states it
                                              \* (extra_tl, or implicitly by the data handed over)
AtaUnit(a) ==
    IF NatOfNum(A(a, "t_length", Z)) = 0 THEN Z
    ELSE IF NatOfNum(A(a, "byte_block", Z)) = 0 THEN <<1>>
    ELSE IF NatOfNum(A(a, "t_type", Z)) = 0 THEN <<2, 0>>
    ELSE A(a, "blocksize", Z)
AtaBytes(a) ==
    IF NatOfNum(A(a, "t_length", Z)) = 3 /\ "extra_tl" \notin DOMAIN a /\ "#datalen" \in DOMAIN a
    THEN NatH(a["#datalen"])
    ELSE Mul(AtaUnits(a), AtaUnit(a))

\* MMC-6 table 351 ff.: bytes per sector delivered by READ CD for the main-channel
\* selection bits (sync, header codes, user data, edc/ecc), by expected sector type;
\* an upper bound over sector types is enough for a buffer-size rule
MainBytesMax(mcsb) ==
      (IF (mcsb \div 16) % 2 = 1 THEN 12 ELSE 0)            \* SYNC
    + (IF (mcsb \div 4) % 2 = 1 THEN 4 ELSE 0)              \* header
    + (IF (mcsb \div 8) % 2 = 1 THEN 8 ELSE 0)              \* sub-header
    + (IF (mcsb \div 2) % 2 = 1 THEN 2352 ELSE 0)           \* user data (at most a raw sector)
    + (IF mcsb % 2 = 1 THEN 288 ELSE 0)                     \* EDC/ECC
C2Bytes(c2ei) == CASE c2ei = 1 -> 294 [] c2ei = 2 -> 296 [] OTHER -> 0
SubBytes(scsb) == CASE scsb = 1 -> 96 [] scsb = 2 -> 16 [] scsb = 4 -> 96 [] OTHER -> 0
Min2(x, y) == IF x < y THEN x ELSE y
SectorBytesMax(a) ==
    Min2(2352, MainBytesMax(NatOfNum(A(a, "mcsb", Z))))
    + C2Bytes(NatOfNum(A(a, "c2ei", Z))) + SubBytes(NatOfNum(A(a, "scsb", Z)))

\* Refusal the class owes the caller before anything is built, "" if none
Refusal(c, a) ==
    LET ph == Cmd[c].phase
        bs0 == NatOfNum(A(a, "blocksize", Z)) = 0 IN
    CASE ph.k \in {"in_blocks", "out_data"} -> IF bs0 THEN "MissingBlocksizeException" ELSE ""
      [] ph.k = "out_block" ->
           IF bs0 /\ ~(c = "WriteSame16" /\ NatOfNum(A(a, "ndob", Z)) = 1) THEN "MissingBlocksizeException" ELSE ""
      [] ph.k = "ata" ->
           IF NatOfNum(A(a, "t_length", Z)) # 0 /\ NatOfNum(A(a, "byte_block", Z)) = 1
              /\ NatOfNum(A(a, "t_type", Z)) = 1 /\ bs0
           THEN "MissingBlocksizeException" ELSE ""
      [] OTHER -> ""

\* expected data-in length in bytes (a Nat; callers keep it < 2^30), -1 = "at least" rule (READ CD)
DinLen(c, a) ==
    LET ph == Cmd[c].phase IN
    CASE ph.k = "in_alloc"  -> NatH(ArgOf(FieldOfKeyArg(c, ph.arg), a))
      [] ph.k = "in_fixed"  -> NatH(A(a, ph.arg, ph.def))
      [] ph.k = "in_blocks" -> Mul(A(a, "blocksize", Z), A(a, ph.arg, Z))
      [] ph.k = "ata"       -> IF NatOfNum(A(a, "t_dir", Z)) = 1 THEN AtaBytes(a) ELSE 0
      [] OTHER -> 0

\* expected data-out length
DoutLen(c, a) ==
    LET ph == Cmd[c].phase IN
    CASE ph.k = "out_data"  -> Mul(A(a, "blocksize", Z), A(a, ph.arg, Z))
      [] ph.k = "out_block" -> IF c = "WriteSame16" /\ NatOfNum(A(a, "ndob", Z)) = 1 THEN 0
                               ELSE NatH(A(a, "blocksize", Z))
      [] ph.k = "ata"       -> IF NatOfNum(A(a, "t_dir", Z)) = 0 THEN AtaBytes(a) ELSE 0
      [] OTHER -> 0

(* ---- well-formedness of this transcription (checked by MC_T10Cdb) ----------- *)

AllSegs(c) ==
    LET L == Cmd[c]
        fs == L.fields
        RECURSIVE Cat(_)
        Cat(s) == IF s = <<>> THEN <<>> ELSE s[1].segs \o Cat(Tail(s))
    IN <<OpSeg>> \o (IF L.sa = NoSA THEN <<>> ELSE <<SASeg>>) \o Cat(fs)

WellFormedLayout(c) ==
    LET sg == AllSegs(c) IN
    /\ Disjoint(sg)
    /\ \A i \in 1..Len(sg) : InBuf(sg[i], Cmd[c].len)
    /\ \A i \in 1..Len(Cmd[c].fields) :
         LET f == Cmd[c].fields[i]
             RECURSIVE Sum(_)
             Sum(s) == IF s = <<>> THEN 0 ELSE s[1].w + Sum(Tail(s)) IN
         /\ Sum(f.segs) = f.w
         /\ f.span.w = f.w
         /\ Fits(f.def, f.w)
    /\ \A i, j \in 1..Len(Cmd[c].fields) :
         i # j => Cmd[c].fields[i].key # Cmd[c].fields[j].key /\ Cmd[c].fields[i].arg # Cmd[c].fields[j].arg

LenMatchesGroup(c) == GroupLen(Cmd[c].opv) = Cmd[c].len
OpcodeIsT10(c) == Cmd[c].opname \in AllNames => ValueOf(Cmd[c].opname) = Cmd[c].opv
SetsOffer(c) == \A s \in Cmd[c].sets : Cmd[c].opname \in DOMAIN Op[s] => Op[s][Cmd[c].opname] = Cmd[c].opv

=============================================================================
