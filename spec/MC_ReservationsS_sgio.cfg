SPECIFICATION SpecSmall
CONSTANTS
  MaxLen = 3
  Tr = "sgio"
INVARIANT TypeOK
INVARIANT HolderRegistered
INVARIANT ExclusiveRead
PROPERTY RefusedChangesNothing
PROPERTY ExclusiveWrite
PROPERTY GenMonotone
PROPERTY HolderChange
CHECK_DEADLOCK FALSE
