SPECIFICATION MCSpec
CONSTANTS
  Roles = {"A", "B", "C"}
  Slots = {"s1", "s2", "s3"}
  MaxLen = 4
PROPERTY Isolation
CHECK_DEADLOCK FALSE
