SPECIFICATION Spec
CONSTANTS
  MaxLen = 24
  Detect = TRUE
INVARIANT SameMedium
INVARIANT FreshAfterSuccess
CHECK_DEADLOCK FALSE
