SPECIFICATION Spec
CONSTANTS
  MaxLen = 24
  Detect = TRUE
  Tr = "sgio"
INVARIANT SameMedium
INVARIANT FreshAfterSuccess
CHECK_DEADLOCK FALSE
