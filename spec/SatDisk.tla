------------------------------- MODULE SatDisk -------------------------------
(***************************************************************************)
(* An ATA disk behind a SCSI / ATA translation layer (SAT-3), driven through    *)
(* facade.atapassthrough12 and facade.atapassthrough16: 28-bit and 48-bit          *)
(* sector reads and writes (READ / WRITE SECTOR(S) 20h 30h, ... EXT 24h 34h) of      *)
(* one or two 512-byte sectors, IDENTIFY DEVICE (ECh), SET FEATURES enable /          *)
(* disable write cache (EFh 02h / 82h), FLUSH CACHE (E7h / EAh), STANDBY / IDLE        *)
(* IMMEDIATE (E0h / E1h) and CHECK POWER MODE (E5h) with CK_COND = 1, whose answer       *)
(* comes back in the ATA Status Return descriptor of the sense data - the one place       *)
(* where the caller reads raw sense bytes that the facade attached to the command.         *)
(*                                                                          *)
(* Sector addresses are symbolic here (1..4); the replay maps them to 0, 0ABCDEh             *)
(* (needs the three LBA bytes of the 12-byte CDB), 5123456h (needs the device                *)
(* register's low nibble) and A1B2C3D4E5F6h (needs all six LBA bytes of the 16-byte            *)
(* CDB in their shuffled positions; EXT commands only).  Each address has a neighbour,          *)
(* so a two-sector transfer has somewhere to go.                                                 *)
(*                                                                          *)
(* Every step has ONE expected outcome; behaviours are exported and replayed on the                *)
(* real facade over both transports against a translation layer + disk written from                 *)
(* SAT-3 and ACS alone, which also checks that PROTOCOL, T_DIR, BYTE_BLOCK, T_LENGTH and              *)
(* EXTEND fit the ATA command they carry.                                                              *)
(***************************************************************************)
EXTENDS Naturals, Sequences, FiniteSets, TLC, Json

CONSTANTS MaxLen, Tr

Idx == 1..4
\* which addresses a command of CDB size v (12 | 16) with / without EXTEND can name
Reach(v, ext) == IF ext THEN Idx ELSE {1, 2, 3}
Variants == {<<12, FALSE>>, <<16, FALSE>>, <<16, TRUE>>}

VARIABLES sect,      \* <<address, 0 | 1>> -> fill value of the sector (0..2)
          wcache, standby,
          hist, exported
vars == <<sect, wcache, standby, hist, exported>>

Init == /\ sect = [a \in Idx \X {0, 1} |-> 0] /\ wcache = TRUE /\ standby = FALSE
        /\ hist = <<>> /\ exported = FALSE
Room == Len(hist) < MaxLen /\ ~exported
StateNow(s, w, b) == [sect |-> [i \in 1..8 |-> s[<<(i + 1) \div 2, (i + 1) % 2>>]], wcache |-> w, standby |-> b]
Rec(act, args, out, d1, d2, view, st) ==
    [act |-> act, args |-> args, out |-> out, sent |-> 1, d1 |-> d1, d2 |-> d2, view |-> view, st |-> st]
B(x) == IF x THEN 1 ELSE 0

\* n sectors from address a on: the first gets x, the second 3 - x (so that an exchanged or repeated sector shows)
Write(v, ext, a, n, x) ==
    /\ Room /\ <<v, ext>> \in Variants /\ a \in Reach(v, ext)
    /\ LET s2 == [k \in Idx \X {0, 1} |-> IF k = <<a, 0>> THEN x ELSE IF k = <<a, 1>> /\ n = 2 THEN 3 - x ELSE sect[k]] IN
       /\ sect' = s2 /\ standby' = FALSE
       /\ hist' = Append(hist, Rec("write", <<v, B(ext), a, n, x>>, "ok", 0, 0, <<>>, StateNow(s2, wcache, FALSE)))
    /\ UNCHANGED <<wcache, exported>>
Read(v, ext, a, n) ==
    /\ Room /\ <<v, ext>> \in Variants /\ a \in Reach(v, ext)
    /\ standby' = FALSE
    /\ hist' = Append(hist, Rec("read", <<v, B(ext), a, n>>, "ok", 0, 0, [i \in 1..n |-> sect[<<a, i - 1>>]], StateNow(sect, wcache, FALSE)))
    /\ UNCHANGED <<sect, wcache, exported>>
\* IDENTIFY DEVICE: the caller reads word 85 bit 5 (write cache enabled); the replay also compares model and capacities
Identify(v) ==
    /\ Room /\ v \in {12, 16}
    /\ hist' = Append(hist, Rec("identify", <<v>>, "ok", B(wcache), 0, <<>>, StateNow(sect, wcache, standby)))
    /\ UNCHANGED <<sect, wcache, standby, exported>>
SetCache(v, on) ==
    /\ Room /\ v \in {12, 16} /\ wcache' = on
    /\ hist' = Append(hist, Rec("setcache", <<v, B(on)>>, "ok", 0, 0, <<>>, StateNow(sect, on, standby)))
    /\ UNCHANGED <<sect, standby, exported>>
Flush(v, ext) ==
    /\ Room /\ <<v, ext>> \in Variants
    /\ hist' = Append(hist, Rec("flush", <<v, B(ext)>>, "ok", 0, 0, <<>>, StateNow(sect, wcache, standby)))
    /\ UNCHANGED <<sect, wcache, standby, exported>>
Power(v, sb) ==
    /\ Room /\ v \in {12, 16} /\ standby' = sb
    /\ hist' = Append(hist, Rec(IF sb THEN "standby" ELSE "idle", <<v>>, "ok", 0, 0, <<>>, StateNow(sect, wcache, sb)))
    /\ UNCHANGED <<sect, wcache, exported>>
\* CHECK POWER MODE with CK_COND = 1: the translation layer answers CHECK CONDITION, RECOVERED ERROR, 00h/1Dh ATA PASS
\* THROUGH INFORMATION AVAILABLE with the registers in the sense data (COUNT = FFh active, 00h standby).  The facade
\* asks its device for raw sense: over SG_IO the call returns and the command carries the sense bytes; over iSCSI
\* the library raises CheckCondition all the same (TransportRules allows both)
CheckPower(v) ==
    /\ Room /\ v \in {12, 16}
    /\ hist' = Append(hist, IF Tr = "sgio"
                            THEN Rec("checkpower", <<v>>, "ok", IF standby THEN 0 ELSE 255, 0, <<>>, StateNow(sect, wcache, standby))
                            ELSE Rec("checkpower", <<v>>, "CheckCondition", 1, 29, <<>>, StateNow(sect, wcache, standby)))
    /\ UNCHANGED <<sect, wcache, standby, exported>>
\* a command the disk does not implement (IDENTIFY PACKET DEVICE, A1h, on a non-packet device) sent WITHOUT CK_COND:
\* the device aborts it and the translation layer answers CHECK CONDITION, ABORTED COMMAND (Bh), with the registers
\* in the sense data (ERROR = 04h ABRT).  The facade asks for raw sense for every ATA pass-through, whatever CK_COND
\* says: over SG_IO the call returns and the caller finds the registers on the command, over iSCSI it raises
Aborted(v) ==
    /\ Room /\ v \in {12, 16}
    /\ hist' = Append(hist, IF Tr = "sgio"
                            THEN Rec("aborted", <<v>>, "ok", 4, 0, <<>>, StateNow(sect, wcache, standby))
                            ELSE Rec("aborted", <<v>>, "CheckCondition", 11, 0, <<>>, StateNow(sect, wcache, standby)))
    /\ UNCHANGED <<sect, wcache, standby, exported>>
Export == /\ Len(hist) = MaxLen /\ ~exported
          /\ PrintT(<<"SATDISK", ToJson([tr |-> Tr, steps |-> hist])>>)
          /\ exported' = TRUE /\ UNCHANGED <<sect, wcache, standby, hist>>

Next == \/ \E v \in {12, 16}, ext \in BOOLEAN, a \in Idx, n \in {1, 2}, x \in {1, 2} : Write(v, ext, a, n, x)
        \/ \E v \in {12, 16}, ext \in BOOLEAN, a \in Idx, n \in {1, 2} : Read(v, ext, a, n)
        \/ \E v \in {12, 16} : Identify(v) \/ CheckPower(v) \/ Aborted(v)
        \/ \E v \in {12, 16}, on \in BOOLEAN : SetCache(v, on) \/ Power(v, on)
        \/ \E v \in {12, 16}, ext \in BOOLEAN : Flush(v, ext)
        \/ Export
Spec == Init /\ [][Next]_vars
\* a narrower caller (two-sector transfers at the addresses that need the upper LBA bytes, one of each other command)
NextSmall == \/ \E vv \in Variants, a \in {2, 3, 4}, x \in {1, 2} : Write(vv[1], vv[2], a, 2, x)
             \/ \E vv \in Variants, a \in {2, 3, 4} : Read(vv[1], vv[2], a, 2)
             \/ CheckPower(16) \/ Aborted(12) \/ Power(12, TRUE) \/ Power(16, FALSE) \/ SetCache(16, FALSE) \/ Identify(12)
             \/ Export
SpecSmall == Init /\ [][NextSmall]_vars

\* ---- what the design guarantees -----------------------------------------------------------------------------------
TypeOK == sect \in [Idx \X {0, 1} -> 0..2]
\* a read reports what the last write to that sector left (checked here on the history: every read view equals the
\* sector values of the state recorded with it)
ReadsSeeWrites == \A i \in 1..Len(hist) : hist[i].act = "read" =>
                      \A k \in 1..Len(hist[i].view) : hist[i].view[k] = hist[i].st.sect[2 * (hist[i].args[3] - 1) + k]
\* only writes change sectors, and only the sectors they name
OnlyWritesWrite == [][sect' # sect => hist'[Len(hist')].act = "write"]_vars
MediaAccessSpinsUp == [][(hist' # hist /\ hist'[Len(hist')].act \in {"read", "write"}) => ~standby']_vars
\* the state without its history (see Reservations!CoreView)
CoreView == <<sect, wcache, standby>>
=============================================================================
