SPECIFICATION Spec
CONSTANTS HasDecoder = FALSE
INVARIANT ExactlyOnce
INVARIANT AtMostOnce
INVARIANT SameBuffers
CHECK_DEADLOCK FALSE
