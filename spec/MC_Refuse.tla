----------------------------- MODULE MC_Refuse -----------------------------
EXTENDS Refuse, Json, TLC
\* export one case per request (at its final phase) for replay into the library
Final == phase \in {"refused", "sent"} \/ (phase = "built" /\ req.k \notin {"prin_sa", "facade_bs0", "facade_bs_reset"})
Export == /\ Final
          /\ PrintT(<<"CASE", ToJson([k |-> req.k, v |-> req.v, expect |-> Verdict(req), execs |-> execs, obj |-> obj])>>)
          /\ UNCHANGED vars
MCNext == Next \/ Export
MCSpec == Init /\ [][MCNext]_vars
=============================================================================
