--------------------------- MODULE TransportRules ---------------------------
(***************************************************************************)
(* C07: what executing a command must look like to the caller, as a         *)
(* function of what the target reported IN THIS EXECUTION.                   *)
(*                                                                          *)
(* Sense data are abstracted to identifiers; the harness instantiates them   *)
(* with concrete fixed / descriptor format buffers:                          *)
(*    "none"  the binding delivers no sense bytes                            *)
(*    "f1"    fixed format,      key 5h ASC 24h ASCQ 00h                     *)
(*    "d2"    descriptor format, key 6h ASC 29h ASCQ 00h                     *)
(*    "f3"    fixed format,      key 2h ASC 04h ASCQ 01h                     *)
(*    "t8"    fixed format cut after byte 7 (ADDITIONAL SENSE LENGTH 0):      *)
(*            key 3h, no additional sense code: reads as 00h / 00h           *)
(*    "t4"    descriptor format cut after byte 3: key 4h ASC 44h ASCQ 00h     *)
(***************************************************************************)
EXTENDS Naturals, Sequences, FiniteSets, TLC

SenseIds == {"none", "f1", "d2", "f3", "t8", "t4"}
Triple(s) == CASE s = "f1" -> <<5, 36, 0>> [] s = "d2" -> <<6, 41, 0>> [] s = "f3" -> <<2, 4, 1>>
               [] s = "t8" -> <<3, 0, 0>> [] s = "t4" -> <<4, 68, 0>>
               [] OTHER -> <<0, 0, 0>>

GOOD == 0
CHECK_CONDITION == 2

\* SAM-5 status codes with an error class named after them
Named(st) ==
    CASE st = 4  -> "ConditionsMet"
      [] st = 8  -> "BusyStatus"
      [] st = 24 -> "ReservationConflict"
      [] st = 40 -> "TaskSetFull"
      [] st = 48 -> "ACAActive"
      [] st = 64 -> "TaskAborted"
      [] OTHER   -> ""

Transports == {"sgio", "iscsi"}
Routes == {"direct", "facade", "facade_decode"}    \* device.execute / SCSI.testunitready / SCSI.inquiry

\* The set of acceptable observable outcomes of one execution.
\* An outcome is [how, exc, key, asc, ascq, raw] with
\*    how  "returned" | "raised"
\*    exc  exception class name ("" when returned, "*" = any exception class)
\*    raw  sense id attached to cmd.raw_sense_data afterwards ("none" = nothing attached / unchanged)
Ret(raw)          == [how |-> "returned", exc |-> "", key |-> 0, asc |-> 0, ascq |-> 0, raw |-> raw]
CC(s, raw)        == [how |-> "raised", exc |-> "CheckCondition", key |-> Triple(s)[1], asc |-> Triple(s)[2],
                      ascq |-> Triple(s)[3], raw |-> raw]
Err(name)         == [how |-> "raised", exc |-> name, key |-> 0, asc |-> 0, ascq |-> 0, raw |-> "none"]

Allowed(tr, st, s, rawflag) ==
    IF st = GOOD THEN {Ret("none")}
    ELSE IF st = CHECK_CONDITION THEN
        IF s = "none" THEN                                 \* nothing to report: still an error ...
            \* ... unless the binding says CHECK CONDITION with an empty sense buffer ("sgio_e") and the caller asked
            \* for raw sense: then the empty byte string attached to the command (not None) is the report
            (IF tr = "sgio_e" /\ rawflag THEN {Ret("empty"), Err("*")} ELSE {Err("*")})
        ELSE IF rawflag THEN {Ret(s), CC(s, s)}            \* raw sense attached; returning is allowed
        ELSE {CC(s, "none")}
    ELSE IF Named(st) # "" /\ tr = "iscsi" THEN {Err(Named(st))}
    ELSE {Err("*")}       \* unnamed status, or a binding (sgio) that does not expose the status byte

\* does an observed outcome o match an allowed outcome a ?
Match(o, a) ==
    /\ o.how = a.how
    /\ (a.exc = "*" \/ o.exc = a.exc)
    /\ (a.exc = "CheckCondition" => o.key = a.key /\ o.asc = a.asc /\ o.ascq = a.ascq)
    /\ (a.raw # "none" => o.raw \in {a.raw, "?"})       \* "?" = the command object was not observable
Accepts(tr, st, s, rawflag, o) == \E a \in Allowed(tr, st, s, rawflag) : Match(o, a)
=============================================================================
