SPECIFICATION Spec
CONSTANTS
  MaxLen = 25
  Tr = "sgio"
INVARIANT TypeOK
INVARIANT ReadsSeeWrites
PROPERTY OnlyWritesWrite
PROPERTY MediaAccessSpinsUp
CHECK_DEADLOCK FALSE
