------------------------------- MODULE Bits -------------------------------
(***************************************************************************)
(* Bit-level conventions of SAM/SPC, written independently of the library: *)
(*   - a buffer is a sequence of bytes (0..255), byte 0 first;             *)
(*   - a number (Num) is a big-endian sequence of bytes of any length,     *)
(*     compared after stripping leading zero bytes (TLC integers are 32    *)
(*     bit, SCSI fields are up to 64 bit and more);                        *)
(*   - a field is the T10 triple [b, m, w]: its most significant bit is    *)
(*     bit m (7..0) of byte b (0-based), it is w bits wide and continues   *)
(*     big-endian into the following bytes.                                *)
(* Nothing here uses the library's (mask, offset) notation.                *)
(***************************************************************************)
EXTENDS Naturals, Sequences, FiniteSets, TLC

\* TLC evaluates function constructors lazily and re-evaluates the body on every
\* application; Ev forces the explicit value once (semantically the identity).
Ev(x) == TLCEval(x)

Byte == 0..255

Pow2(n) == 2^n

IsBuf(s) == \A i \in 1..Len(s) : s[i] \in Byte

Zeros(n) == Ev([i \in 1..n |-> 0])

(* ---- numbers ---------------------------------------------------------- *)

RECURSIVE Strip(_)
Strip(s) == IF s = <<>> THEN <<>>
            ELSE IF s[1] = 0 THEN Strip(Tail(s)) ELSE s

NumEq(a, b) == Strip(a) = Strip(b)

\* bit i (0 = least significant) of the number v
BitOfNum(v, i) ==
    LET k == i \div 8 IN
    IF k >= Len(v) THEN 0 ELSE (v[Len(v) - k] \div Pow2(i % 8)) % 2

\* v < 2^w
Fits(v, w) == \A i \in w..(8 * Len(v) - 1) : BitOfNum(v, i) = 0

\* small naturals <-> numbers (only for values known to be < 2^31)
RECURSIVE NatOfNumR(_, _)
NatOfNumR(s, acc) == IF s = <<>> THEN acc ELSE NatOfNumR(Tail(s), acc * 256 + s[1])
NatOfNum(s) == NatOfNumR(Strip(s), 0)

RECURSIVE NumOfNat(_)
NumOfNat(n) == IF n = 0 THEN <<>> ELSE Append(NumOfNat(n \div 256), n % 256)

\* "clamped" reading of a length field: exact when it fits in 3 bytes, otherwise a
\* value larger than any buffer this specification ever handles (2^24)
NatClamp(s) == LET t == Strip(s) IN IF Len(t) > 3 THEN 16777216 ELSE NatOfNum(t)

\* big-endian rendering of v into exactly k bytes (low 8k bits of v)
IntToBA(v, k) ==
  Ev([j \in 1..k |->
        LET base == 8 * (k - j) IN
        BitOfNum(v, base)         + 2 * BitOfNum(v, base + 1) + 4 * BitOfNum(v, base + 2)
      + 8 * BitOfNum(v, base + 3) + 16 * BitOfNum(v, base + 4) + 32 * BitOfNum(v, base + 5)
      + 64 * BitOfNum(v, base + 6) + 128 * BitOfNum(v, base + 7)])

\* value of a byte string read big-endian
BE(ba) == Strip(ba)

(* ---- fields ----------------------------------------------------------- *)

\* linear bit index: 0 is bit 7 of byte 0, 7 is bit 0 of byte 0, 8 is bit 7 of byte 1 ...
Start(f)    == 8 * f.b + (7 - f.m)
FieldPos(f) == Start(f)..(Start(f) + f.w - 1)
LastByte(f) == (Start(f) + f.w - 1) \div 8          \* 0-based index of the byte holding the LSB
InBuf(f, n) == f.w >= 1 /\ f.m \in 0..7 /\ LastByte(f) < n

LinBit(buf, p) == (buf[(p \div 8) + 1] \div Pow2(7 - (p % 8))) % 2

\* the number stored in field f of buf
Get(buf, f) ==
    LET s  == Start(f)
        nb == (f.w + 7) \div 8
        vb(i) == IF i >= f.w THEN 0 ELSE LinBit(buf, s + f.w - 1 - i)    \* value bit i
    IN Strip(Ev([j \in 1..nb |->
                LET base == 8 * (nb - j) IN
                vb(base)          + 2 * vb(base + 1)  + 4 * vb(base + 2)  + 8 * vb(base + 3)
              + 16 * vb(base + 4) + 32 * vb(base + 5) + 64 * vb(base + 6) + 128 * vb(base + 7)]))

\* buf with the low f.w bits of v stored in field f; every other bit unchanged
Put(buf, f, v) ==
    LET s == Start(f)
        nb(p) == IF p \in FieldPos(f) THEN BitOfNum(v, s + f.w - 1 - p) ELSE LinBit(buf, p)
    IN Ev([j \in 1..Len(buf) |->
          LET q == 8 * (j - 1) IN
          128 * nb(q)    + 64 * nb(q + 1) + 32 * nb(q + 2) + 16 * nb(q + 3)
        + 8 * nb(q + 4)  + 4 * nb(q + 5)  + 2 * nb(q + 6)  + nb(q + 7)])

\* several fields at once: fs is a sequence of fields, vs the sequence of their values.
\* Where fields overlap the first one in the sequence wins (layouts used as oracles are
\* checked to be overlap-free, see Disjoint).
PutAll(buf, fs, vs) ==
    LET cover(p) == {i \in 1..Len(fs) : p \in FieldPos(fs[i])}
        Min(S)   == CHOOSE x \in S : \A y \in S : x <= y
        nb(p) == IF cover(p) = {} THEN LinBit(buf, p)
                 ELSE LET i == Min(cover(p)) IN
                      BitOfNum(vs[i], Start(fs[i]) + fs[i].w - 1 - p)
    IN Ev([j \in 1..Len(buf) |->
          LET q == 8 * (j - 1) IN
          128 * nb(q)    + 64 * nb(q + 1) + 32 * nb(q + 2) + 16 * nb(q + 3)
        + 8 * nb(q + 4)  + 4 * nb(q + 5)  + 2 * nb(q + 6)  + nb(q + 7)])

Disjoint(fs) == \A i, j \in 1..Len(fs) : i # j => FieldPos(fs[i]) \cap FieldPos(fs[j]) = {}

\* buf with all bits of field f cleared
Clear(buf, f) == Put(buf, f, <<>>)

(* ---- blobs (whole-byte strings inside a buffer) ------------------------ *)

Sub(buf, off, n) ==     \* bytes off .. off+n-1 (0-based), truncated at the end of buf
    LET hi == IF off + n > Len(buf) THEN Len(buf) ELSE off + n IN
    IF off >= hi THEN <<>> ELSE Ev([i \in 1..(hi - off) |-> buf[off + i]])

PutBlob(buf, off, bytes) ==   \* requires off + Len(bytes) <= Len(buf)
    Ev([j \in 1..Len(buf) |-> IF j > off /\ j <= off + Len(bytes) THEN bytes[j - off] ELSE buf[j]])

\* the library's three blob kinds: unit 1, 2 or 4 bytes
BlobUnit(kind) == CASE kind = "b" -> 1 [] kind = "w" -> 2 [] kind = "dw" -> 4

(* ---- laws (checked by MC_Bits on enumerated instances) ----------------- *)

LawGetPut(buf, f, v)   == Fits(v, f.w) => NumEq(Get(Put(buf, f, v), f), v)
LawPutOnlyField(buf, f, v) ==
    \A p \in 0..(8 * Len(buf) - 1) : p \notin FieldPos(f) => LinBit(Put(buf, f, v), p) = LinBit(buf, p)
LawGetOnlyField(buf, f, g, v) ==   \* writing a disjoint field g does not change what f reads
    FieldPos(f) \cap FieldPos(g) = {} => Get(Put(buf, g, v), f) = Get(buf, f)
LawOrder(buf, f, g, v, u) ==
    FieldPos(f) \cap FieldPos(g) = {} => Put(Put(buf, f, v), g, u) = Put(Put(buf, g, u), f, v)
LawIntBA(v, k) == Fits(v, 8 * k) => NumEq(BE(IntToBA(v, k)), v)
LawBAInt(ba)   == IntToBA(BE(ba), Len(ba)) = ba

=============================================================================
