SPECIFICATION Spec
CONSTANTS
  MaxLen = 30
  Tr = "sgio"
INVARIANT TypeOK
INVARIANT RefusedSendsNothing
PROPERTY SetFollowsAttach
CHECK_DEADLOCK FALSE
