--------------------------- MODULE Trace_Transport ---------------------------
(* recorded executions {tr, st, s, raw, o} judged against TransportRules.Accepts;
   the clause names the part of C07 that the outcome breaks *)
EXTENDS TransportRules, Json, IOUtils
Trace == JsonDeserialize(IOEnv.TRACE_FILE)
VARIABLE l
Clause(e) ==
    IF Accepts(e.tr, e.st, e.s, e.raw, e.o) THEN <<>>
    ELSE IF e.o.how = "returned" THEN <<"NoSilentFailure", "">>
    ELSE IF e.st = GOOD THEN <<"GoodReturns", e.o.exc>>
    ELSE IF e.st = CHECK_CONDITION /\ e.o.exc = "CheckCondition" THEN <<"SenseFaithful", ToJson(Triple(e.s))>>
    ELSE IF e.st = CHECK_CONDITION THEN <<"CheckConditionSurfaces", e.o.exc>>
    ELSE <<"NamedStatusNamedError", Named(e.st)>>
TInit == l = 1
Step == /\ l <= Len(Trace)
        /\ LET v == Clause(Trace[l]) IN
             IF v = <<>> THEN TRUE
             ELSE PrintT(<<"VERDICT", ToJson([i |-> l, clause |-> v[1], detail |-> v[2]])>>)
        /\ l' = l + 1
Finish == l = Len(Trace) + 1 /\ PrintT(<<"CONSUMED", ToJson([n |-> l - 1])>>) /\ UNCHANGED l
TSpec == TInit /\ [][Step \/ Finish]_l
=============================================================================
