SPECIFICATION Spec
CONSTANTS
  ClassSet = {"TestUnitReady", "InitializeElementStatus", "Inquiry", "ModeSelect6", "ModeSense6", "OpenCloseImportExportElement", "PreventAllowMediumRemoval", "ReadCapacity10", "Read10", "Write10", "PositionToElement", "SynchronizeCache10", "InitializeElementStatusWithRange", "WriteSame10", "ReadDiscInformation", "ModeSelect10", "ModeSense10", "PersistentReserveIn", "PersistentReserveInReadKeys", "PersistentReserveInReadReservation", "PersistentReserveInReportCapabilities", "PersistentReserveInReadFullStatus", "PersistentReserveOut", "ExtendedCopy4", "ExtendedCopy5", "ATAPassThrough16", "Read16", "Write16", "SynchronizeCache16", "WriteSame16", "ReadCapacity16", "GetLBAStatus", "ReportLuns", "ATAPassThrough12", "ReportTargetPortGroups", "ReportPriority", "MoveMedium", "ExchangeMedium", "Read12", "Write12", "ReadElementStatus", "ReadCd"}
  Quick = TRUE
INVARIANT CaseLaws
INVARIANT Layouts
CHECK_DEADLOCK FALSE
