#!/venv/bin/python
"""Regenerate MANIFEST.json from the table below (kept valid at all times)."""
import json
import os

VERIF = os.path.dirname(os.path.dirname(os.path.abspath(__file__)))

CHECKS = {
    "C06": dict(
        technique="what the library BUILDS for every structure with both directions is parsed by TLC with the T10Data.tla "
                  "parsers and compared with the values (Trace_Data Marshal events); parse-of-build and build-of-parse "
                  "are compared on those TLC-accepted byte strings; read-modify-write of every mode page field through the "
                  "facade is judged the same way; a Rebuild event lets TLC parse the device's response and what the library rebuilt from it and demand the same values",
        text="15 structures (standard INQUIRY, VPD 80/83/86/B2/B3 with all designator kinds, mode parameter lists 6/10, READ "
             "CAPACITY 10/16, GET LBA STATUS, REPORT LUNS, RTPG both headers, READ ELEMENT STATUS, TransportIDs): build "
             "places every value where the standard says, lengths honest, parse(build(v)) = v, build(parse(b)) = b; "
             "modesense6 -> change one field -> modeselect6 for all 44 fields of four mode pages changes at most the "
             "field's bytes.",
        note="Value dictionaries come from decoding generated responses (decoders judged by C04); canonical byte strings "
             "are the build images TLC accepted.",
        ref="6 C06"),
    "C05": dict(
        technique="data-out parameter lists transcribed into TLA+ as parsers with exact-length predicates (T10Data.tla "
                  "ParseOut/Exact); every list the library composes from a random valid dictionary is parsed by TLC and "
                  "compared with the input (Trace_Data Marshal events); the CDB is judged by Trace_Command; reserved / obsolete bits of the lists are must-be-zero facts; one caller dictionary passed to marshall_dataout repeatedly with entries changed in between",
        text="MODE SELECT(6)/(10) lists with 0-3 pages of four kinds, PR OUT basic / SPEC_I_PT with 0-3 TransportIDs / "
             "REGISTER AND MOVE, five TransportID kinds with iSCSI name lengths across the padding boundaries and ISIDs, "
             "EXTENDED COPY LID1/LID4 with E4h CSCD descriptors, six segment types and inline data: value placement, "
             "every embedded length exact, parameter list length in the CDB, constructible for every valid dictionary.",
        note="Oracle = my transcription; SOP TransportID not judged; LID4 header as in SPC-4 r37.",
        ref="6 C05"),
    "C12": dict(
        technique="conformant block target in TLA+ (TargetRules/Target.tla: finds the command by opcode, reads LBA/lengths "
                  "off the CDB with T10Cdb field positions, disk = LBA -> block) model-checked for read-your-writes through "
                  "the spec's own codec; random histories through the facade over both transports against a live target are "
                  "replayed by TLC's target from the received CDBs (Trace_Target); behaviours of the "
                  "composition Initiator.tla (I/O + injected CHECK CONDITION/BUSY + node replacement/removal + re-attach), "
                  "exhaustive to 5 steps and by TLC -simulate to 24 steps, replayed step by step on the real facade; Initiator.tla arms every status SAM names and has the caller's re-encoded long-lived read object as an action; histories re-issue kept READ CAPACITY / INQUIRY objects after the target changed (resize events); the caller's long-lived write objects with refilled buffers (Rewrite)",
        text="Every I/O event carries the caller's arguments and data, the CDB and data-out the binding received, what "
             "the target returned and what the caller sees; TLC checks target-recovers-arguments, write data reaches the "
             "target, reads return what was last written at the LBAs the caller named (LBAs around 0, 2^32, 2^64), "
             "capacity and identity reported.",
        note="The live Python target is environment; TLC re-derives its answers (a non-conformant harness target is a "
             "machinery failure). Block sizes 1/2/4, transfer lengths 1..3.",
        ref="6 C12"),
    "C13": dict(
        technique="facade call state machine (Facade.tla) model-checked by TLC; every facade method x command set x subset "
                  "of optional keyword arguments executed with a recording device that fills the data-in buffer; judged by "
                  "Trace_Facade (exactly once, same buffers), Trace_Command (arguments and defaults in the CDB, opcode of "
                  "the attached set) and Trace_Data (result = parse of what the device wrote); byte-identical device answers decoded under different arguments, repeated calls after the caller edited the result, other device types asking first for commands found by operation code; behaviours of Session.tla (one facade's lifetime: calls, kept command objects re-issued, edited results, ATA pass-through, re-attach after a type change, probes, a second facade, held errors, armed completions), exhaustive to 3 steps and by TLC -simulate to 30, replayed step by step on the real facade over both transports; behaviours of Changer.tla (a conformant SMC media changer: move / exchange / position / initialise / open-close / prevent / element status kept and re-issued, operator actions) replayed against a changer that decodes CDBs and builds element status by SMC-3; behaviours of Reservations.tla (persistent reservations of two initiators on one logical unit, block access under the reservation) replayed on two facades against a target written from SPC-4; behaviours of ModePages.tla (MODE SENSE / edit / MODE SELECT with current, saved, default and changeable pages, SWP and D_SENSE taking effect) replayed against a target that parses the parameter lists; behaviours of SatDisk.tla (ATA PASS-THROUGH 12/16: 28/48-bit sector I/O, IDENTIFY, SET FEATURES, power modes, CHECK POWER MODE read from raw sense) replayed against a translation layer + ATA disk written from SAT-3",
        text="36 facade methods (4 PR IN service actions) on every set offering the command, every subset of optional "
             "keywords (sampled above 24/300), device-provided contents from the C04 generators.",
        note="modeselect6/10, persistentreserveout, extendedcopy4/5 are driven by C05. Argument names = constructor "
             "signatures. Known finding: reportpriority decoder.",
        ref="6 C13"),
    "C16": dict(
        technique="attach / re-attach state machine (Attach.tla) model-checked by TLC; all 32 types x 8 qualifiers and "
                  "attach sequences executed on real SCSIDevice/ISCSIDevice over stand-in bindings; every attach validated "
                  "by the stateful Trace_Attach; after every attach, probes of the commands the facade finds by operation code (9Eh / A3h) judged by AttachRules!Offers",
        text="One standard INQUIRY per attach, TypeSelectsSet for the named types, primary commands always offered, "
             "selection for unnamed types independent of attach history, other devices untouched.",
        note="Types 02h/09h (mapped to SSC by the library) only need the primary commands.",
        ref="6 C16"),
    "C04": dict(
        technique="parameter-data formats transcribed into TLA+ as parsers with well-formedness predicates (T10Data.tla); "
                  "every decoder call on generated responses is an event; TLC re-derives the expected values from the "
                  "bytes and judges the library's flattened result (Trace_Data); ATA Information VPD page and iSCSI names of TransportIDs included; a second observation point (one long-lived command per format, buffer re-filled in place, cmd.unmarshall()) is judged the same way; NothingInvented: element descriptors may only carry the type-specific fields the specification reads for their element type",
        text="25 response formats (standard INQUIRY, VPD 00/80/83 with all designator kinds/86/B0/B1/B2/B3, MODE SENSE "
             "6/10 with four page kinds, READ CAPACITY 10/16, GET LBA STATUS, REPORT LUNS, RTPG both headers, REPORT "
             "PRIORITY, READ ELEMENT STATUS, PR IN x4 with TransportIDs, READ DISC INFORMATION x3): random/boundary field "
             "contents, 0-3 descriptors, 0/1/7 bytes of slack; every path the standard defines must be present with the "
             "value in the bytes, list counts must honour the embedded lengths.",
        note="Oracle = my transcription (no standards offline); generators untrusted (buffers failing T10Data!Okay are "
             "skipped). Not judged: ATA Information VPD, READ CD sector layouts. Known findings: MODE SENSE with != 1 "
             "pages, REPORT PRIORITY decoder.",
        ref="6 C04"),
    "C11": dict(
        technique="nested consume-loops with device-chosen strides modelled in TLA+ (Decoders.tla): TLC proves Termination "
                  "(liveness under weak fairness), VariantDecreases and WorkBounded for the guarded design and refutes the "
                  "unguarded one; every real decoder is run on hostile buffers under a line-event budget and each run is "
                  "judged by Trace_Decoders",
        text="31 decoders (24 formats, ATA VPD, 5 READ CD layouts, sense) x well-formed bases with every leading byte "
             "forced to 00/01/80/FF, adjacent pairs to 0000/FFFF/0001/0004, every truncation, random garbage; budget "
             "2000+1000*len line events.",
        note="Binding is a budgeted execution (sys.settrace); a terminating decoder needs < 2% of the budget (measured, "
             "see evidence largest_budget_fraction).",
        ref="6 C11"),
    "C08": dict(
        technique="sense positions and a curated T10 ASC/ASCQ text table in TLA+ (T10Sense.tla, self-checked by TLC); every "
                  "probed sense buffer is one event judged by Trace_Sense",
        text="Totality (construct, str(), print_data() never raise) and positions of response code / valid / key / ASC / "
             "ASCQ for all four formats, unknown response codes, all 16 keys, all 65536 pairs (thorough; boundary subset "
             "+ sample in quick), every length 1..252, flag bits, through SCSICheckCondition and both device classes.",
        note="Wording judged only on 97 curated assignments after normalisation; other code points for totality and "
             "numbers.",
        ref="6 C08"),
    "C18": dict(
        technique="EnumSM.tla (ordered partial maps + dictionary model, two enumerations) model-checked by TLC; all "
                  "operation sequences to a depth and random long histories on real Enum objects validated step by step "
                  "by Trace_EnumSM; enumerations also created as OpCode service-action tables; falsy values",
        text="Agreement with a dictionary, reverse-lookup soundness (first supplied name, equal-but-distinct values), "
             "refusals changing nothing and no cross-talk are invariants/action properties of the spec; the real class is "
             "driven through every sequence up to length 3 (4) for six value kinds incl. nested dicts and OpCode objects, "
             "with a bystander enumeration observed after every step.",
        note="Names restricted to identifiers not starting with '__' and not shadowing the container API; no callable "
             "values.",
        ref="6 C18"),
    "C09": dict(
        technique="object-level behaviours of Command.tla (construct/probe/discard over live objects, action property "
                  "Isolation) instantiated with all ordered class pairs; thread schedules enumerated by TLC from Sched.tla "
                  "(preemption-bounded, line granularity) and executed by a settrace scheduler on real threads; the parameter-data codecs of other commands as disturbers fed the victims' own field values; every class's reference CDB decoded by every other class of equal length (expected by T10Cdb!DictDecode); first use in a pristine process (before / after creating an instance); same class in both threads; refused constructions as the other command; outcomes of 300 data-decode calls compared with the outcome each has in a process of its own; one caller buffer shared by two write commands",
        text="After every action of every exported behaviour each live object's CDB/buffers and the probed class's "
             "decode/re-encode are compared with the class's isolated reference (itself validated by TLC against "
             "T10Cdb.tla). All 42x42 ordered pairs on the canonical sequences, every behaviour on 10 representative "
             "classes, sampled triples, shared/mutable constructor arguments, and every <=P-preemption schedule of 2 "
             "threads that each build, decode and re-encode their own command.",
        note="Yield points = CPython 'line' events inside <repo>/pyscsi; quick: P=1 on every 3rd yield point for 4 class "
             "pairs, thorough: P=2 every 4th point for 11 pairs. GIL-level (bytecode) interleavings are not explored.",
        ref="6 C09"),
    "C07": dict(
        technique="transport state machine (Transport.tla: target completes -> binding reports -> library maps, command "
                  "objects re-executed) model-checked by TLC; every (history, status 0..255, sense, raw flag) case replayed "
                  "on real SCSIDevice/ISCSIDevice over stand-in bindings and through three facade routes; random fault "
                  "sequences judged by Trace_Transport; truncated sense buffers among the sense identifiers; every CheckCondition raised is held and re-inspected at the end; context-manager routes with a failing iSCSI disconnect; a binding variant that reports CHECK CONDITION with an empty sense buffer (transport sgio_e in TransportRules)",
        text="TLC checks NoSilentFailure, SenseFaithful, NamedStatusNamedError, GoodReturns on the design for all "
             "histories of two re-usable command objects; the exported cases drive the real devices with all 256 status "
             "values, four sense kinds, stale-sense histories, raw on/off, direct and facade routes.",
        note="The contracts of cython-sgio / cython-iscsi are rendered by harness/fakes (not installable here). Over SG_IO "
             "the binding hides the status byte, so any exception is accepted for non-GOOD, non-CHECK-CONDITION statuses.",
        ref="6 C07"),
    "C15": dict(
        technique="finite handle/node state machine (Handle.tla) model-checked exhaustively by TLC (unbounded histories); "
                  "all action sequences up to a depth plus random long ones executed on a real SCSIDevice over tmpfs "
                  "nodes and validated step by step by Trace_Handle; three ways of creating a device with detection on (flag, default, init_device)",
        text="Every history over {execute, replug, unplug, plug, close-failure, close, with-exit normal/exception} up to "
             "length 4 (thorough 6) for detection on/off and ro/rw is run against the real class with real inodes; each "
             "observed step (outcome, handle used vs node at path, live OS handles) must be a successor the spec allows.",
        note="Inode-based detection (create+rename gives a new inode); close failure injected on a wrapper of the file "
             "object returned by the module-level open(); environment actions only between library calls.",
        ref="6 C15"),
    "C19": dict(
        technique="Bindings.tla (prefix rules on character sequences, refusal before open/connect) model-checked by TLC; "
                  "one interpreter per binding configuration records imports / codec probes / init_device calls; events "
                  "judged by Trace_Bindings; device classes constructed directly as routes of their own (ExpectVia); file-system accesses during a refusal counted",
        text="Exhaustive over 4 configurations x every module x 16 device strings x ro/rw x default/explicit initiator.",
        note="Absent binding = meta-path blocker; present = stand-in modules; open() observed by shadowing the builtin in "
             "the device module.",
        ref="6 C19"),
    "C01": dict(
        technique="T10 CDB layouts transcribed into TLA+ (T10Cdb.tla); TLC enumerates the star+flags argument space "
                  "with the transcription's laws as invariants (MC_T10Cdb) and exports predicted CDBs replayed into the "
                  "42 constructors on every command set; recorded random constructions judged by TLC (Trace_Command); a sample of the exported cases of every class is executed on both transports over the stand-in bindings (after a failed construction, and again after the command was re-aimed) and the bytes the binding received are compared with the specification's CDB",
        text="Every field of every class is driven through 0, max, every single bit and max-minus-bit over three "
             "backgrounds plus all flag combinations, on each command set offering the class, and the bytes are compared "
             "with an independent T10-notation oracle whose own consistency (disjoint fields, group length, "
             "target-recovers-arguments, other bits zero) TLC checks on every case.",
        note="Oracle = my transcription of SPC-4/SBC-3/SMC-3/MMC-6/SAT-3 (no copy of the standards offline). "
             "Allocation-coupled arguments go through constructors only up to 256 KiB; above that through marshall_cdb.",
        ref="6 C01"),
    "C02": dict(
        technique="dictionary-level DictEncode/DictDecode of T10Cdb.tla checked for inverse-ness by TLC on every case; "
                  "cases replayed into marshall_cdb/unmarshall_cdb; random joint assignments judged by Trace_Command; the constructor route: unmarshall_cdb of the constructed CDB gives the case's dictionary and a second build_cdb on the same object gives the same bytes",
        text="For all 42 classes every exported case is encoded from its dictionary and decoded back through the real "
             "static codecs and compared with the spec's prediction; joint all-max / alternating / random assignments "
             "to all fields simultaneously are recorded and validated by TLC.",
        note="Static calls are made right after constructing an instance of the same class (C09 isolates the "
             "shared-register problem). Extra keys returned by the library are ignored.",
        ref="6 C02"),
    "C03": dict(
        technique="data-phase rules (allocation length, tl x block size, SAT transfer rules) in T10Cdb.tla; predicted "
                  "buffer lengths from MC_T10Cdb compared on real command objects; recorded constructions judged by TLC; every constructed case is re-aimed (cmd.cdb = cmd.build_cdb(...)) and recorded again; NDOB with caller data",
        text="len(datain), len(dataout), buffer types and caller's-data identity checked for every constructible "
             "case of the 42 classes incl. all 4x2x2x2 ATA modes x lengths x block sizes.",
        note="READ CD is judged with an at-least rule; T_LENGTH=3 uses the caller's extra_tl. Transport-level "
             "lengths (what sgio/iscsi receive) are covered with C07/C12.",
        ref="6 C03"),
    "C14": dict(
        technique="T10 opcode/service-action/status tables in TLA+ (T10Opcodes.tla), self-consistency by TLC "
                  "(MC_Opcodes); library tables walked exhaustively and judged by a stateful TLC trace spec; CDB length through marshall_cdb on one class for all 256 codes in four orders; every entry of one set adapted through the public API and the other sets walked again",
        text="Exhaustive: every entry of the five tables, every service-action entry, every status and all 256 opcode "
             "values for the CDB length rule; SameNameSameValue is judged over the whole walk for all names.",
        note="Values transcribed from memory and cross-read against scsi/scsi.h and linux/cdrom.h; names unknown to "
             "the spec are listed as unjudged.",
        ref="6 C14"),
    "C17": dict(
        technique="request state machine (Refuse.tla: idle->validated->refused|built->sent) model-checked by TLC; each "
                  "request replayed against constructors/facade with a recording device; events judged by Trace_Refuse",
        text="All refusal classes of the property: block size 0 over the whole argument star of every block/ATA class, "
             "all 256 opcodes by two routes, PR IN service actions incl. large integers, XCOPY unknown keys / type codes "
             "/ lu_id_type for both XCOPY classes, inconsistent TransportIDs, facade calls without block size; checked: "
             "specific exception, execute count 0, no object.",
        note="Known-but-unimplemented XCOPY type codes may be refused by ValueError or NotImplementedError.",
        ref="6 C17"),
    "C10": dict(
        technique="TLA+ state machine of the codec (MC_Bits) model-checked by TLC; its terminal states replayed into "
                  "encode_dict/decode_bits; recorded calls judged by TLC against Bits.tla (Trace_Bits); masks spanning further bytes after the field; returned bytearrays mutated by the caller and the call repeated; several blobs of mixed kinds in one call (encode_blobs), decoded blobs are values of their own (blob_snapshot)",
        text="TLC checks the codec laws (read-back, locality, order independence, int<->bytes) on an explicit TLA+ "
             "model for every layout of 1-3 disjoint fields in a small buffer and all write orders; every terminal "
             "state is replayed into the real functions, and recorded calls with wide/unaligned/random layouts are "
             "validated against the same definitions. Exhaustive for narrow fields, boundary+random for wide ones.",
        note="Trusted: TLC, CommunityModules Json, the harness translation (start,width)->(mask,offset). Masks in "
             "canonical form; field bits zero before encoding.",
        ref="6 C10"),
}

NOT_YET = {
}

ALL = ["C%02d" % i for i in range(1, 20)]


def main():
    checks = []
    for pid in ALL:
        if pid not in CHECKS:
            continue
        c = CHECKS[pid]
        checks.append({
            "property_id": pid,
            "quick_cmd": "./bin/check %s --tier quick" % pid,
            "thorough_cmd": "./bin/check %s --tier thorough" % pid,
            "evidence_file": "/verif/evidence/%s.json" % pid,
            "replay_cmd_template": "./bin/check %s --replay {path}" % pid,
            "engine": "tlc+harness",
            "level_claimed": {"category": c.get("category", "model_checking"), "text": c["text"],
                              "design_ref": "DESIGN.md section " + c["ref"]},
            "level_note": c["note"],
            "technique": c["technique"],
        })
    na = [{"property_id": pid, "reason": NOT_YET.get(pid, "check not built yet in this round (planned, see DESIGN.md section 10); no claim is made for it")}
          for pid in ALL if pid not in CHECKS]
    m = {
        "version": 1,
        "setup_cmd": "./bin/setup",
        "hooks": {
            "guard": "PYSCSI_VERIF",
            "enable": "no hooks are needed: every observation point is public API; external bindings are replaced by "
                      "harness/fakes in sys.modules (guard name reserved, no source commits)",
            "baseline_off_cmd": "cd /repo && /venv/bin/python -m pytest -ra -q -p no:cacheprovider",
            "source_commits": [],
            "add_only": True,
        },
        "engines": [{"name": "tlc+harness", "path": "/verif/bin/check",
                     "serves_properties": [c["property_id"] for c in checks],
                     "kind_free_text": "TLA+ specifications under /verif/spec checked with TLC 1.8; Python harness "
                                       "under /verif/harness replays TLC-generated cases/behaviours into /repo and "
                                       "feeds recorded events back to TLC trace specifications"}],
        "checks": checks,
        "not_applicable": na,
        "notes": "See DESIGN.md. exit 0 = held, 1 = VIOLATION line, 2 = machinery failure.",
    }
    with open(os.path.join(VERIF, "MANIFEST.json"), "w") as f:
        json.dump(m, f, indent=1)
    print("MANIFEST.json: %d checks, %d not claimed" % (len(checks), len(na)))


if __name__ == "__main__":
    main()
