#!/venv/bin/python
"""Regenerate MANIFEST.json from the table below (kept valid at all times)."""
import json
import os

VERIF = os.path.dirname(os.path.dirname(os.path.abspath(__file__)))

CHECKS = {
    "C10": dict(
        technique="TLA+ state machine of the codec (MC_Bits) model-checked by TLC; its terminal states replayed into "
                  "encode_dict/decode_bits; recorded calls judged by TLC against Bits.tla (Trace_Bits)",
        text="TLC checks the codec laws (read-back, locality, order independence, int<->bytes) on an explicit TLA+ "
             "model for every layout of 1-3 disjoint fields in a small buffer and all write orders; every terminal "
             "state is replayed into the real functions, and recorded calls with wide/unaligned/random layouts are "
             "validated against the same definitions. Exhaustive for narrow fields, boundary+random for wide ones.",
        note="Trusted: TLC, CommunityModules Json, the harness translation (start,width)->(mask,offset). Masks in "
             "canonical form; field bits zero before encoding.",
        ref="6 C10"),
}

NOT_YET = {
}

ALL = ["C%02d" % i for i in range(1, 20)]


def main():
    checks = []
    for pid in ALL:
        if pid not in CHECKS:
            continue
        c = CHECKS[pid]
        checks.append({
            "property_id": pid,
            "quick_cmd": "./bin/check %s --tier quick" % pid,
            "thorough_cmd": "./bin/check %s --tier thorough" % pid,
            "evidence_file": "/verif/evidence/%s.json" % pid,
            "replay_cmd_template": "./bin/check %s --replay {path}" % pid,
            "engine": "tlc+harness",
            "level_claimed": {"category": c.get("category", "model_checking"), "text": c["text"],
                              "design_ref": "DESIGN.md section " + c["ref"]},
            "level_note": c["note"],
            "technique": c["technique"],
        })
    na = [{"property_id": pid, "reason": NOT_YET.get(pid, "check not built yet in this round (planned, see DESIGN.md section 10); no claim is made for it")}
          for pid in ALL if pid not in CHECKS]
    m = {
        "version": 1,
        "setup_cmd": "./bin/setup",
        "hooks": {
            "guard": "PYSCSI_VERIF",
            "enable": "no hooks are needed: every observation point is public API; external bindings are replaced by "
                      "harness/fakes in sys.modules (guard name reserved, no source commits)",
            "baseline_off_cmd": "cd /repo && /venv/bin/python -m pytest -ra -q -p no:cacheprovider",
            "source_commits": [],
            "add_only": True,
        },
        "engines": [{"name": "tlc+harness", "path": "/verif/bin/check",
                     "serves_properties": [c["property_id"] for c in checks],
                     "kind_free_text": "TLA+ specifications under /verif/spec checked with TLC 1.8; Python harness "
                                       "under /verif/harness replays TLC-generated cases/behaviours into /repo and "
                                       "feeds recorded events back to TLC trace specifications"}],
        "checks": checks,
        "not_applicable": na,
        "notes": "See DESIGN.md. exit 0 = held, 1 = VIOLATION line, 2 = machinery failure.",
    }
    with open(os.path.join(VERIF, "MANIFEST.json"), "w") as f:
        json.dump(m, f, indent=1)
    print("MANIFEST.json: %d checks, %d not claimed" % (len(checks), len(na)))


if __name__ == "__main__":
    main()
